//! Rig adapters: one per library block. Each builds a real block wired to
//! harness ports from seeded parameters and input, and (where the block's
//! function is exactly specified) attaches an independent reference model
//! written from the documentation, plus the expected tag mapping.

use rustradio::blocks::*;
use rustradio::stream::{Tag, TagValue};
use rustradio::window::WindowType;
use rustradio::{Complex, Float};

use crate::datagen::*;
use crate::rig::*;
use crate::src::Src;

pub struct Env {
    /// Stream size (bytes) of the chunked run; only used to choose lengths so
    /// that both runs of a pair get identical input.
    pub small_bytes: usize,
}

impl Env {
    pub fn cap<T>(&self) -> usize {
        self.small_bytes / std::mem::size_of::<T>()
    }
}

pub struct Adapter {
    pub name: &'static str,
    pub build: fn(&mut Src, &Env) -> Case,
    /// Has an exact reference model (C10).
    pub c10: bool,
    /// Has a numeric reference model (C11).
    pub c11: bool,
    /// Has a tag expectation (C12).
    pub c12: bool,
}

// ---------------------------------------------------------------------------
// Comparison helpers.

pub fn expect_exact<T: Bits>(what: &str, got: &[T], exp: &[T], complete: bool) -> Result<(), String> {
    let n = got.len().min(exp.len());
    for i in 0..n {
        let mut a = Vec::new();
        let mut b = Vec::new();
        got[i].bits(&mut a);
        exp[i].bits(&mut b);
        if a != b {
            return Err(format!(
                "{what}: sample {i} is {:?}, specification says {:?} ({} emitted, {} expected)",
                got[i],
                exp[i],
                got.len(),
                exp.len()
            ));
        }
    }
    if got.len() > exp.len() {
        return Err(format!("{what}: {} samples emitted, specification says {}", got.len(), exp.len()));
    }
    if complete && got.len() < exp.len() {
        return Err(format!("{what}: only {} samples emitted, specification says {}", got.len(), exp.len()));
    }
    Ok(())
}

fn identity_tags(case: &Case, port_in: usize) -> Vec<TagRec> {
    // Tags of input `port_in` for samples already emitted on output 0.
    let _ = port_in;
    Vec::new()
}

fn in_tags<T: Bits>(case: &Case, i: usize) -> &[TagRec] {
    &case.in_typed::<T>(i).tags
}

/// Identity mapping of the first input's tags onto every output.
fn tags_identity<T: Bits>(case: &Case) -> Vec<Vec<TagRec>> {
    let t = in_tags::<T>(case, 0);
    case.outs
        .iter()
        .map(|o| t.iter().filter(|x| (x.0 as usize) < o.collected()).cloned().collect())
        .collect()
}

// ---------------------------------------------------------------------------
// Sync blocks.

fn b_add(src: &mut Src, env: &Env) -> Case {
    let n = gen_len(src, env.cap::<f32>());
    let n2 = if src.chance(1, 3) { gen_len(src, env.cap::<f32>()) } else { n };
    let a = gen_f32_vec(src, n, true);
    let b = gen_f32_vec(src, n2, true);
    let ta = gen_tags(src, n, env.cap::<f32>());
    let tb = gen_tags(src, n2, env.cap::<f32>());
    let (pa, ra) = StreamIn::new(a, ta);
    let (pb, rb) = StreamIn::new(b, tb);
    let (blk, out) = Add::<Float, Float, Float>::new(ra, rb);
    let mut c = Case::new("Add", format!("len {n}/{n2}"), Box::new(blk));
    c.ins = vec![pa, pb];
    c.outs = vec![StreamOut::new(out)];
    c.reference = Some(Box::new(|c, complete| {
        let a = &c.in_typed::<f32>(0).data;
        let b = &c.in_typed::<f32>(1).data;
        let exp: Vec<f32> = a.iter().zip(b).map(|(x, y)| x + y).collect();
        expect_exact("Add", &c.out_typed::<f32>(0).got, &exp, complete)
    }));
    c.tag_expect = Some(Box::new(tags_identity::<f32>));
    c
}

macro_rules! unary_sync {
    ($fname:ident, $kind:literal, $tin:ty, $tout:ty, $gen:expr, $mk:expr, $model:expr, $pfmt:expr) => {
        fn $fname(src: &mut Src, env: &Env) -> Case {
            // Against the larger of the two capacities (in items), so that a
            // narrowing block (f32 -> u8) can fill its output too.
            let n = gen_len(src, env.cap::<$tin>().max(env.cap::<$tout>()));
            #[allow(clippy::redundant_closure_call)]
            let data: Vec<$tin> = ($gen)(src, n);
            let tags = gen_tags(src, n, env.cap::<$tin>());
            let (p, r) = StreamIn::new(data, tags);
            #[allow(clippy::redundant_closure_call)]
            let (blk, out, params, model): (Box<dyn rustradio::block::Block + Send>, rustradio::stream::ReadStream<$tout>, String, Box<dyn Fn(&[$tin]) -> Vec<$tout> + Send>) = ($mk)(src, r);
            let mut c = Case::new($kind, format!("len {n} {params}"), blk);
            c.ins = vec![p];
            c.outs = vec![StreamOut::new(out)];
            c.reference = Some(Box::new(move |c, complete| {
                let exp = model(&c.in_typed::<$tin>(0).data);
                expect_exact($kind, &c.out_typed::<$tout>(0).got, &exp, complete)
            }));
            c.tag_expect = Some(Box::new(tags_identity::<$tin>));
            c
        }
    };
}

unary_sync!(b_add_const_f, "AddConst<f32>", f32, f32, |s: &mut Src, n| gen_f32_vec(s, n, true),
    |s: &mut Src, r| { let v = gen_f32(s, true); let (b, o) = AddConst::new(r, v); (Box::new(b) as _, o, format!("val {v:?}"), Box::new(move |x: &[f32]| x.iter().map(|a| a + v).collect()) as _) },
    (), ());
unary_sync!(b_add_const_c, "AddConst<Complex>", Complex, Complex, |s: &mut Src, n| gen_complex_vec(s, n, true),
    |s: &mut Src, r| { let v = Complex::new(gen_f32(s, false), gen_f32(s, false)); let (b, o) = AddConst::new(r, v); (Box::new(b) as _, o, format!("val {v:?}"), Box::new(move |x: &[Complex]| x.iter().map(|a| a + v).collect()) as _) },
    (), ());
unary_sync!(b_add_const_fn, "add_const()", f32, f32, |s: &mut Src, n| gen_f32_vec(s, n, true),
    |s: &mut Src, r| { let v = gen_f32(s, true); let (b, o) = add_const(r, v); (Box::new(b) as _, o, format!("val {v:?}"), Box::new(move |x: &[f32]| x.iter().map(|a| a + v).collect()) as _) },
    (), ());
unary_sync!(b_mul_const_f, "MultiplyConst<f32>", f32, f32, |s: &mut Src, n| gen_f32_vec(s, n, true),
    |s: &mut Src, r| { let v = gen_f32(s, true); let (b, o) = MultiplyConst::new(r, v); (Box::new(b) as _, o, format!("val {v:?}"), Box::new(move |x: &[f32]| x.iter().map(|a| a * v).collect()) as _) },
    (), ());
unary_sync!(b_mul_const_c, "MultiplyConst<Complex>", Complex, Complex, |s: &mut Src, n| gen_complex_vec(s, n, false),
    |s: &mut Src, r| { let v = Complex::new(gen_f32(s, false), gen_f32(s, false)); let (b, o) = MultiplyConst::new(r, v); (Box::new(b) as _, o, format!("val {v:?}"), Box::new(move |x: &[Complex]| x.iter().map(|a| Complex::new(a.re * v.re - a.im * v.im, a.re * v.im + a.im * v.re)).collect()) as _) },
    (), ());
unary_sync!(b_xor_const, "XorConst<u8>", u8, u8, |s: &mut Src, n| gen_u8_vec(s, n),
    |s: &mut Src, r| { let v = s.below(256) as u8; let (b, o) = XorConst::new(r, v); (Box::new(b) as _, o, format!("val {v}"), Box::new(move |x: &[u8]| x.iter().map(|a| a ^ v).collect()) as _) },
    (), ());
unary_sync!(b_xor_const32, "XorConst<u32>", u32, u32, |s: &mut Src, n| gen_u32_vec(s, n),
    |s: &mut Src, r| { let v = s.bits() as u32; let (b, o) = XorConst::new(r, v); (Box::new(b) as _, o, format!("val {v}"), Box::new(move |x: &[u32]| x.iter().map(|a| a ^ v).collect()) as _) },
    (), ());
unary_sync!(b_slicer, "BinarySlicer", f32, u8, |s: &mut Src, n| gen_f32_vec(s, n, true),
    |_s: &mut Src, r| { let (b, o) = BinarySlicer::new(r); (Box::new(b) as _, o, String::new(), Box::new(move |x: &[f32]| x.iter().map(|a| if *a > 0.0 { 1u8 } else { 0 }).collect()) as _) },
    (), ());
unary_sync!(b_mag2, "ComplexToMag2", Complex, f32, |s: &mut Src, n| gen_complex_vec(s, n, true),
    |_s: &mut Src, r| { let (b, o) = ComplexToMag2::new(r); (Box::new(b) as _, o, String::new(), Box::new(move |x: &[Complex]| x.iter().map(|a| a.re * a.re + a.im * a.im).collect()) as _) },
    (), ());
unary_sync!(b_map, "Map", u8, u32, |s: &mut Src, n| gen_u8_vec(s, n),
    |s: &mut Src, r| { let k = s.below(1000) as u32; let (b, o) = MapBuilder::new(r, move |x: u8| (x as u32) * 3 + k).name("m").build(); (Box::new(b) as _, o, format!("k {k}"), Box::new(move |x: &[u8]| x.iter().map(|a| (*a as u32) * 3 + k).collect()) as _) },
    (), ());
// (documented as equivalent to Tee -> Delay(1) -> Xor -> XorConst(1): defined
// for every byte value, not only for bits)
unary_sync!(b_nrzi, "NrziDecode", u8, u8, |s: &mut Src, n| if s.chance(1, 4) { gen_u8_vec(s, n) } else { gen_bits(s, n) },
    |_s: &mut Src, r| { let (b, o) = NrziDecode::new(r); (Box::new(b) as _, o, String::new(), Box::new(move |x: &[u8]| { let mut prev = 0u8; x.iter().map(|a| { let o = 1 ^ a ^ prev; prev = *a; o }).collect() }) as _) },
    (), ());

fn descramble_model(x: &[u8], mask: u64, seed: u64, len: u8) -> Vec<u8> {
    // History formulation: hist[k] is the input k+1 steps ago; register bit j
    // holds the input (len - j + 1) steps ago; pre-history comes from `seed`.
    let l = len as usize;
    let mut hist: Vec<u8> = (0..=l).map(|k| ((seed >> (l - k)) & 1) as u8).collect();
    let mut out = Vec::with_capacity(x.len());
    for &b in x {
        let mut p = 0u8;
        for j in 0..64usize {
            if (mask >> j) & 1 == 1 && j <= l {
                p ^= hist[l - j];
            }
        }
        out.push(b ^ p);
        hist.insert(0, b);
        hist.truncate(l + 1);
    }
    out
}

unary_sync!(b_descrambler, "Descrambler", u8, u8, |s: &mut Src, n| gen_bits(s, n),
    |s: &mut Src, r| {
        if s.chance(1, 3) {
            let (b, o) = Descrambler::new_g3ruh(r);
            (Box::new(b) as _, o, "g3ruh".to_string(), Box::new(move |x: &[u8]| descramble_model(x, 0x21, 0, 16)) as _)
        } else {
            // The register is 64 bits wide and len may be up to 63: taps in the
            // upper half must be exercised too.
            let len = match s.below(4) {
                0 | 1 => s.range(1, 20),
                2 => s.range(21, 63),
                _ => *s.pick(&[31usize, 32, 33, 40, 47, 62, 63]),
            } as u8;
            let width_mask = if len >= 63 { u64::MAX } else { (1u64 << (len as u64 + 1)) - 1 };
            let mut mask = s.bits() & width_mask;
            if s.chance(1, 3) {
                // make sure the oldest tap is in use
                mask |= 1;
                mask |= 1u64 << (len as u64).min(63);
            }
            let seed = s.bits() & width_mask;
            let (b, o) = Descrambler::new(r, mask, seed, len);
            (Box::new(b) as _, o, format!("mask {mask:#x} seed {seed:#x} len {len}"), Box::new(move |x: &[u8]| descramble_model(x, mask, seed, len)) as _)
        }
    },
    (), ());

/// Symbols for the correlators: bits as a rule, now and then four-level
/// symbols (they count differing positions, whatever the symbol values).
fn gen_symbols(src: &mut Src, n: usize, wide: bool) -> Vec<u8> {
    if wide { (0..n).map(|_| src.below(4) as u8).collect() } else { gen_bits(src, n) }
}

fn correlate_model(x: &[u8], code: &[u8], allowed: usize) -> Vec<(u8, usize)> {
    let l = code.len();
    let mut out = Vec::with_capacity(x.len());
    for i in 0..x.len() {
        // Last l inputs ending at i, zero pre-filled.
        let mut d = 0;
        for k in 0..l {
            let idx = i as isize - (l as isize - 1) + k as isize;
            let v = if idx < 0 { 0 } else { x[idx as usize] };
            if v != code[k] {
                d += 1;
            }
        }
        out.push((if d <= allowed { 1 } else { 0 }, d));
    }
    out
}

unary_sync!(b_correlate, "CorrelateAccessCode", u8, u8, |s: &mut Src, n| { let wide = s.chance(1, 4); gen_symbols(s, n, wide) },
    |s: &mut Src, r| {
        let l = s.range(1, 12);
        let wide = s.chance(1, 4);
        let code = gen_symbols(s, l, wide);
        let allowed = s.below(3);
        let (b, o) = CorrelateAccessCode::new(r, code.clone(), allowed);
        (Box::new(b) as _, o, format!("code {code:?} allowed {allowed}"), Box::new(move |x: &[u8]| correlate_model(x, &code, allowed).into_iter().map(|p| p.0).collect()) as _)
    },
    (), ());

fn b_correlate_tag(src: &mut Src, env: &Env) -> Case {
    let n = gen_len(src, env.cap::<u8>());
    let wide = src.chance(1, 4);
    let data = gen_symbols(src, n, wide);
    let tags = gen_tags(src, n, env.cap::<u8>());
    let (p, r) = StreamIn::new(data, tags);
    let l = src.range(1, 10);
    let code = gen_symbols(src, l, wide);
    let allowed = src.below(3);
    let (b, o) = CorrelateAccessCodeTag::new(r, code.clone(), "sync", allowed);
    let mut c = Case::new("CorrelateAccessCodeTag", format!("len {n} code {code:?} allowed {allowed}"), Box::new(b));
    c.ins = vec![p];
    c.outs = vec![StreamOut::new(o)];
    c.reference = Some(Box::new(|c, complete| {
        let exp = c.in_typed::<u8>(0).data.clone();
        expect_exact("CorrelateAccessCodeTag", &c.out_typed::<u8>(0).got, &exp, complete)
    }));
    c.tag_expect = Some(Box::new(move |c| {
        let x = &c.in_typed::<u8>(0).data;
        let n = c.outs[0].collected();
        let mut t: Vec<TagRec> = in_tags::<u8>(c, 0).iter().filter(|t| (t.0 as usize) < n).cloned().collect();
        for (i, (hit, d)) in correlate_model(x, &code, allowed).into_iter().enumerate() {
            if hit == 1 && i < n {
                t.push((i as u64, "sync".into(), TagValue::U64(d as u64)));
            }
        }
        vec![t]
    }));
    c
}

unary_sync!(b_quad_demod, "QuadratureDemod", Complex, f32, |s: &mut Src, n| gen_complex_vec(s, n, true),
    |s: &mut Src, r| { let g = gen_f32(s, false); let (b, o) = QuadratureDemod::new(r, g); (Box::new(b) as _, o, format!("gain {g:?}"), Box::new(move |x: &[Complex]| { let mut last = Complex::new(0.0, 0.0); x.iter().map(|s| { let t = *s * last.conj(); last = *s; g * t.im.atan2(t.re) }).collect() }) as _) },
    (), ());
unary_sync!(b_fastfm, "FastFM", Complex, f32, |s: &mut Src, n| gen_complex_vec(s, n, false),
    |_s: &mut Src, r| { let (b, o) = FastFM::new(r); (Box::new(b) as _, o, String::new(), Box::new(move |x: &[Complex]| { let mut q1 = Complex::new(0.0, 0.0); let mut q2 = q1; x.iter().map(|s| { let o = (s.im - q2.im) * q1.re - (s.re - q2.re) * q1.im; q2 = q1; q1 = *s; o }).collect() }) as _) },
    (), ());
unary_sync!(b_iir_f, "SinglePoleIirFilter<f32>", f32, f32, |s: &mut Src, n| gen_f32_vec(s, n, false),
    |s: &mut Src, r| { let a = *s.pick(&[0.0f32, 1.0, 0.5, 0.01, 0.99, 0.25]); let (b, o) = SinglePoleIirFilter::new(r, a).expect("alpha"); (Box::new(b) as _, o, format!("alpha {a}"), Box::new(move |x: &[f32]| { let mut y = 0.0f32; let oma = 1.0 - a; x.iter().map(|s| { y = s * a + y * oma; y }).collect() }) as _) },
    (), ());
unary_sync!(b_iir_c, "SinglePoleIirFilter<Complex>", Complex, Complex, |s: &mut Src, n| gen_complex_vec(s, n, false),
    |s: &mut Src, r| { let a = *s.pick(&[0.0f32, 1.0, 0.5, 0.01, 0.9]); let (b, o) = SinglePoleIirFilter::new(r, a).expect("alpha"); (Box::new(b) as _, o, format!("alpha {a}"), Box::new(move |x: &[Complex]| { let mut y = Complex::new(0.0, 0.0); let oma = 1.0 - a; x.iter().map(|s| { y = s * a + y * oma; y }).collect() }) as _) },
    (), ());

fn b_xor(src: &mut Src, env: &Env) -> Case {
    let n = gen_len(src, env.cap::<u8>());
    let n2 = if src.chance(1, 3) { gen_len(src, env.cap::<u8>()) } else { n };
    let a = gen_u8_vec(src, n);
    let b = gen_u8_vec(src, n2);
    let ta = gen_tags(src, n, env.cap::<u8>());
    let (pa, ra) = StreamIn::new(a, ta);
    let (pb, rb) = StreamIn::new(b, vec![]);
    let (blk, out) = Xor::new(ra, rb);
    let mut c = Case::new("Xor", format!("len {n}/{n2}"), Box::new(blk));
    c.ins = vec![pa, pb];
    c.outs = vec![StreamOut::new(out)];
    c.reference = Some(Box::new(|c, complete| {
        let exp: Vec<u8> = c.in_typed::<u8>(0).data.iter().zip(&c.in_typed::<u8>(1).data).map(|(x, y)| x ^ y).collect();
        expect_exact("Xor", &c.out_typed::<u8>(0).got, &exp, complete)
    }));
    c.tag_expect = Some(Box::new(tags_identity::<u8>));
    c
}

fn b_f2c(src: &mut Src, env: &Env) -> Case {
    let n = gen_len(src, env.cap::<Complex>());
    let n2 = if src.chance(1, 3) { gen_len(src, env.cap::<Complex>()) } else { n };
    let a = gen_f32_vec(src, n, true);
    let b = gen_f32_vec(src, n2, true);
    let ta = gen_tags(src, n, env.cap::<Complex>());
    let (pa, ra) = StreamIn::new(a, ta);
    let (pb, rb) = StreamIn::new(b, vec![]);
    let (blk, out) = FloatToComplex::new(ra, rb);
    let mut c = Case::new("FloatToComplex", format!("len {n}/{n2}"), Box::new(blk));
    c.ins = vec![pa, pb];
    c.outs = vec![StreamOut::new(out)];
    c.reference = Some(Box::new(|c, complete| {
        let exp: Vec<Complex> = c.in_typed::<f32>(0).data.iter().zip(&c.in_typed::<f32>(1).data).map(|(x, y)| Complex::new(*x, *y)).collect();
        expect_exact("FloatToComplex", &c.out_typed::<Complex>(0).got, &exp, complete)
    }));
    c.tag_expect = Some(Box::new(tags_identity::<f32>));
    c
}

fn b_tee(src: &mut Src, env: &Env) -> Case {
    let n = gen_len(src, env.cap::<u32>());
    let data = gen_u32_vec(src, n);
    let tags = gen_tags(src, n, env.cap::<u32>());
    let (p, r) = StreamIn::new(data, tags);
    let (blk, o1, o2) = Tee::new(r);
    let mut c = Case::new("Tee", format!("len {n}"), Box::new(blk));
    c.ins = vec![p];
    c.outs = vec![StreamOut::new(o1), StreamOut::new(o2)];
    c.reference = Some(Box::new(|c, complete| {
        let exp = &c.in_typed::<u32>(0).data;
        // Each output individually is a prefix; when complete both are whole.
        expect_exact("Tee.1", &c.out_typed::<u32>(0).got, exp, complete)?;
        expect_exact("Tee.2", &c.out_typed::<u32>(1).got, exp, complete)
    }));
    c.tag_expect = Some(Box::new(tags_identity::<u32>));
    c
}

fn b_burst_tagger(src: &mut Src, env: &Env) -> Case {
    let n = gen_len(src, env.cap::<Complex>());
    let data = gen_complex_vec(src, n, false);
    let trig: Vec<f32> = match src.below(3) {
        0 => (0..n).map(|i| if (i / 7) % 2 == 0 { 0.0 } else { 1.0 }).collect(),
        _ => gen_f32_vec(src, n, true),
    };
    let th = *src.pick(&[0.5f32, 0.0, -1.0, 0.9]);
    let tags = gen_tags(src, n, env.cap::<Complex>());
    let (p, r) = StreamIn::new(data, tags);
    let (pt, rt) = StreamIn::new(trig, vec![]);
    let (blk, o) = BurstTagger::new(r, rt, th, "burst");
    let mut c = Case::new("BurstTagger", format!("len {n} threshold {th}"), Box::new(blk));
    c.ins = vec![p, pt];
    c.outs = vec![StreamOut::new(o)];
    c.reference = Some(Box::new(|c, complete| {
        let exp = c.in_typed::<Complex>(0).data.clone();
        expect_exact("BurstTagger", &c.out_typed::<Complex>(0).got, &exp, complete)
    }));
    c.tag_expect = Some(Box::new(move |c| {
        let n = c.outs[0].collected();
        let mut t: Vec<TagRec> = in_tags::<Complex>(c, 0).iter().filter(|t| (t.0 as usize) < n).cloned().collect();
        let mut last = false;
        for (i, tv) in c.in_typed::<f32>(1).data.iter().enumerate() {
            let cur = *tv > th;
            if cur != last && i < n {
                t.push((i as u64, "burst".into(), TagValue::Bool(cur)));
            }
            last = cur;
        }
        vec![t]
    }));
    c
}

// ---------------------------------------------------------------------------
// Hand-written stream blocks.

/// Delay whose delay is changed once in mid-stream through `set_delay()`.
/// The wrapper feeds the real Delay through an internal stream so that it
/// knows how many input samples the Delay had consumed when the change was
/// made (the reference needs that position). The change is only applied once
/// the Delay has consumed input, i.e. after the initial padding is out: before
/// that `set_delay` replaces the pending padding and upstream's own test for
/// it is commented out ("TODO: fix"), so no behaviour is specified there.
struct DelayPoke {
    inner: Delay<u32>,
    src: rustradio::stream::ReadStream<u32>,
    mid_w: rustradio::stream::WriteStream<u32>,
    mid_cap: usize,
    copied: usize,
    calls: usize,
    change_at_call: usize,
    new_delay: usize,
    /// (input samples consumed by the Delay at the change).
    changed: std::sync::Arc<std::sync::Mutex<Option<usize>>>,
}
impl rustradio::block::BlockName for DelayPoke {
    fn block_name(&self) -> &str {
        "Delay+set_delay"
    }
}
impl rustradio::block::BlockEOF for DelayPoke {
    fn eof(&mut self) -> bool {
        self.src.eof() && self.mid_w.free() == self.mid_cap
    }
}
impl rustradio::block::Block for DelayPoke {
    fn work(&mut self) -> rustradio::Result<rustradio::block::BlockRet> {
        use rustradio::block::BlockRet;
        use rustradio::stream::StreamWait;
        self.calls += 1;
        {
            let (i, tags) = self.src.read_buf()?;
            let mut o = self.mid_w.write_buf()?;
            let n = i.len().min(o.len());
            if n > 0 {
                o.slice()[..n].copy_from_slice(&i.slice()[..n]);
                let tags: Vec<_> = tags.into_iter().filter(|t| t.pos() < n).collect();
                o.produce(n, &tags);
                i.consume(n);
                self.copied += n;
            }
        }
        if self.calls >= self.change_at_call && self.changed.lock().unwrap().is_none() {
            let consumed = self.copied - (self.mid_cap - self.mid_w.free());
            if consumed > 0 {
                self.inner.set_delay(self.new_delay);
                *self.changed.lock().unwrap() = Some(consumed);
            }
        }
        let mid_id = self.mid_w.verif_id();
        let ret = self.inner.work()?;
        Ok(match ret {
            BlockRet::WaitForStream(w, _) if w.verif_id() == mid_id => BlockRet::WaitForStream(&self.src, 1),
            other => other,
        })
    }
}

fn b_delay_change(src: &mut Src, env: &Env) -> Case {
    let cap = env.cap::<u32>();
    let n = gen_len(src, cap);
    let d = src.below(40);
    let newd = match src.below(4) {
        0 => 0,
        1 => d + src.range(1, 30),
        _ => src.below(d + 1),
    };
    let change_at_call = src.range(1, 12);
    let data = gen_u32_vec(src, n);
    let tags = gen_tags(src, n, cap);
    let (p, r) = StreamIn::new(data, tags);
    let (mid_w, mid_r) = rustradio::stream::new_stream::<u32>();
    let mid_cap = mid_w.free();
    let (inner, o) = Delay::new(mid_r, d);
    let changed = std::sync::Arc::new(std::sync::Mutex::new(None));
    let blk = DelayPoke { inner, src: r, mid_w, mid_cap, copied: 0, calls: 0, change_at_call, new_delay: newd, changed: changed.clone() };
    let mut c = Case::new("Delay+set_delay", format!("len {n} delay {d} -> {newd} from call {change_at_call}"), Box::new(blk));
    c.ins = vec![p];
    c.outs = vec![StreamOut::new(o)];
    // The change position differs between the two deliveries by construction.
    c.skip_compare = true;
    let ch2 = changed.clone();
    // Output index of input sample i (None: dropped by a reduced delay).
    let map = move |ch: Option<usize>, i: usize| -> Option<usize> {
        match ch {
            None => Some(d + i),
            Some(c) if i < c => Some(d + i),
            Some(c) => {
                if newd >= d {
                    Some(i + newd)
                } else if i < c + (d - newd) {
                    None
                } else {
                    Some(i + newd)
                }
            }
        }
    };
    c.reference = Some(Box::new(move |c, complete| {
        let ch = *ch2.lock().unwrap();
        let input = &c.in_typed::<u32>(0).data;
        let mut exp = vec![0u32; d];
        match ch {
            None => exp.extend(input),
            Some(at) => {
                exp.extend(&input[..at]);
                if newd >= d {
                    exp.extend(std::iter::repeat(0u32).take(newd - d));
                    exp.extend(&input[at..]);
                } else {
                    exp.extend(input.iter().skip(at + (d - newd)));
                }
            }
        }
        expect_exact("Delay+set_delay", &c.out_typed::<u32>(0).got, &exp, complete)
    }));
    c.tag_expect = Some(Box::new(move |c| {
        let ch = *changed.lock().unwrap();
        let n = c.outs[0].collected();
        vec![in_tags::<u32>(c, 0).iter().filter_map(|t| map(ch, t.0 as usize).map(|p| (p as u64, t.1.clone(), t.2.clone()))).filter(|t| (t.0 as usize) < n).collect()]
    }));
    c
}

fn b_delay(src: &mut Src, env: &Env) -> Case {
    let cap = env.cap::<u32>();
    let n = gen_len(src, cap);
    let d = match src.below(6) {
        0 => 0,
        1 => 1,
        2 => cap - 1,
        3 => cap + 3,
        _ => src.below(40),
    };
    let data = gen_u32_vec(src, n);
    let tags = gen_tags(src, n, cap);
    let (p, r) = StreamIn::new(data, tags);
    let (blk, o) = Delay::new(r, d);
    let mut c = Case::new("Delay", format!("len {n} delay {d}"), Box::new(blk));
    c.ins = vec![p];
    c.outs = vec![StreamOut::new(o)];
    c.reference = Some(Box::new(move |c, complete| {
        let mut exp = vec![0u32; d];
        exp.extend(&c.in_typed::<u32>(0).data);
        expect_exact("Delay", &c.out_typed::<u32>(0).got, &exp, complete)
    }));
    c.tag_expect = Some(Box::new(move |c| {
        let n = c.outs[0].collected();
        vec![in_tags::<u32>(c, 0).iter().map(|t| (t.0 + d as u64, t.1.clone(), t.2.clone())).filter(|t| (t.0 as usize) < n).collect()]
    }));
    c
}

fn b_skip(src: &mut Src, env: &Env) -> Case {
    let cap = env.cap::<f32>();
    let n = gen_len(src, cap);
    let s = match src.below(6) {
        0 => 0,
        1 => 1,
        2 => cap,
        3 => n + 2,
        _ => src.below(50),
    };
    let data = gen_f32_vec(src, n, true);
    let tags = gen_tags(src, n, cap);
    let (p, r) = StreamIn::new(data, tags);
    let (blk, o) = Skip::new(r, s);
    let mut c = Case::new("Skip", format!("len {n} skip {s}"), Box::new(blk));
    c.ins = vec![p];
    c.outs = vec![StreamOut::new(o)];
    c.reference = Some(Box::new(move |c, complete| {
        let d = &c.in_typed::<f32>(0).data;
        let exp: Vec<f32> = d.iter().skip(s).copied().collect();
        expect_exact("Skip", &c.out_typed::<f32>(0).got, &exp, complete)
    }));
    c.tag_expect = Some(Box::new(move |c| {
        let n = c.outs[0].collected();
        vec![in_tags::<f32>(c, 0).iter().filter(|t| t.0 >= s as u64).map(|t| (t.0 - s as u64, t.1.clone(), t.2.clone())).filter(|t| (t.0 as usize) < n).collect()]
    }));
    c
}

fn b_resampler(src: &mut Src, env: &Env) -> Case {
    let cap = env.cap::<u32>();
    let (interp, deci) = match src.below(8) {
        0 => (1, 1),
        1 => (2, 1),
        2 => (1, 2),
        3 => (3, 2),
        4 => (2, 3),
        5 => (4, 6),
        _ => (src.range(1, 8), src.range(1, 8)),
    };
    let n = gen_len(src, cap).min(2 * cap);
    let data: Vec<u32> = (0..n as u32).map(|i| i.wrapping_mul(2654435761)).collect();
    let stray = stray_tags(src, n, 1024);
    let (p, r) = StreamIn::new(data, stray);
    let (blk, o) = RationalResampler::new(r, interp, deci).expect("resampler");
    let mut c = Case::new("RationalResampler", format!("len {n} interp {interp} deci {deci}"), Box::new(blk));
    c.ins = vec![p];
    c.outs = vec![StreamOut::new(o)];
    c.reference = Some(Box::new(move |c, complete| {
        let d = &c.in_typed::<u32>(0).data;
        let cnt = (d.len() * interp).div_ceil(deci);
        let exp: Vec<u32> = (0..cnt).map(|k| d[k * deci / interp]).collect();
        expect_exact("RationalResampler", &c.out_typed::<u32>(0).got, &exp, complete)
    }));
    c
}

fn b_rtlsdr(src: &mut Src, env: &Env) -> Case {
    let n = gen_len(src, env.cap::<u8>());
    let data = gen_u8_vec(src, n);
    let stray = stray_tags(src, n, 1024);
    let (p, r) = StreamIn::new(data, stray);
    let (blk, o) = RtlSdrDecode::new(r);
    let mut c = Case::new("RtlSdrDecode", format!("len {n}"), Box::new(blk));
    c.ins = vec![p];
    c.outs = vec![StreamOut::new(o)];
    c.reference = Some(Box::new(|c, complete| {
        let d = &c.in_typed::<u8>(0).data;
        let exp: Vec<Complex> = d.chunks_exact(2).map(|e| Complex::new((e[0] as f32 - 127.0) * 0.008, (e[1] as f32 - 127.0) * 0.008)).collect();
        expect_exact("RtlSdrDecode", &c.out_typed::<Complex>(0).got, &exp, complete)
    }));
    c
}

fn b_vec_to_stream(src: &mut Src, env: &Env) -> Case {
    let cap = env.cap::<u8>();
    let np = src.range(0, 8);
    let mut packets: Vec<Vec<u8>> = Vec::new();
    for _ in 0..np {
        let l = match src.below(6) {
            0 => 0,
            1 => 1,
            2 => cap,
            3 => cap - 1,
            _ => src.range(1, 300),
        };
        packets.push(gen_u8_vec(src, l));
    }
    let (p, r) = NcIn::new(packets);
    let (blk, o) = VecToStream::new(r);
    let mut c = Case::new("VecToStream", format!("{np} packets"), Box::new(blk));
    c.ins = vec![p];
    c.outs = vec![StreamOut::new(o)];
    c.reference = Some(Box::new(|c, complete| {
        let exp: Vec<u8> = c.in_nc::<Vec<u8>>(0).packets.iter().flatten().copied().collect();
        expect_exact("VecToStream", &c.out_typed::<u8>(0).got, &exp, complete)
    }));
    c.tag_expect = Some(Box::new(|c| {
        let n = c.outs[0].collected() as u64;
        let mut t = Vec::new();
        let mut pos = 0u64;
        for p in &c.in_nc::<Vec<u8>>(0).packets {
            if p.is_empty() {
                continue;
            }
            let l = p.len() as u64;
            if pos + l <= n {
                t.push((pos, "VecToStream::start".to_string(), TagValue::U64(l)));
                t.push((pos + l - 1, "VecToStream::end".to_string(), TagValue::U64(l)));
            }
            pos += l;
        }
        vec![t]
    }));
    c
}

/// PduWriter together with the directory it writes to (removed with the case).
struct PduWriterInDir {
    inner: PduWriter<u8>,
    dir: tempfile::TempDir,
}
impl rustradio::block::BlockName for PduWriterInDir {
    fn block_name(&self) -> &str {
        self.inner.block_name()
    }
}
impl rustradio::block::BlockEOF for PduWriterInDir {
    fn eof(&mut self) -> bool {
        self.inner.eof()
    }
}
impl rustradio::block::Block for PduWriterInDir {
    fn work(&mut self) -> rustradio::Result<rustradio::block::BlockRet> {
        let _ = &self.dir;
        self.inner.work()
    }
}

fn b_pdu_writer(src: &mut Src, _env: &Env) -> Case {
    let np = src.range(0, 6);
    let mut packets: Vec<Vec<u8>> = Vec::new();
    for _ in 0..np {
        let l = match src.below(5) {
            0 => 0, // Il2pDeframer emits empty PDUs for headers
            1 => 1,
            _ => src.range(1, 300),
        };
        packets.push(gen_u8_vec(src, l));
    }
    let (p, r) = NcIn::new(packets);
    let dir = tempfile::tempdir().expect("tempdir");
    let path = dir.path().to_path_buf();
    let inner = PduWriter::<u8>::new(r, path.clone());
    let mut c = Case::new("PduWriter", format!("{np} packets"), Box::new(PduWriterInDir { inner, dir }));
    c.ins = vec![p];
    // Files are named by the microsecond they were written in, so two PDUs
    // written within one microsecond would share a name: only inclusion is
    // checked (every file holds exactly one of the PDUs), not the count.
    c.reference = Some(Box::new(move |c, _complete| {
        let packets = &c.in_nc::<Vec<u8>>(0).packets;
        let Ok(rd) = std::fs::read_dir(&path) else { return Ok(()) };
        let mut n = 0;
        for e in rd.flatten() {
            n += 1;
            let content = std::fs::read(e.path()).unwrap_or_default();
            if !packets.iter().any(|p| *p == content) {
                return Err(format!("PduWriter: file {:?} holds {} bytes that are none of the {} PDUs", e.file_name(), content.len(), packets.len()));
            }
        }
        if n > packets.len() {
            return Err(format!("PduWriter: {n} files for {} PDUs", packets.len()));
        }
        Ok(())
    }));
    c
}

/// Model of StreamToPdu that follows the documented behaviour: a `true` tag
/// starts a burst (that sample included), a `false` tag ends it (that sample
/// excluded) after `tail` further samples; bursts longer than max_size are
/// dropped.
fn stream_to_pdu_model(data: &[f32], tags: &[TagRec], key: &str, max_size: usize, tail: usize) -> Vec<Vec<f32>> {
    let mut out = Vec::new();
    let mut buf: Vec<f32> = Vec::new();
    let mut endcounter: Option<usize> = None;
    for (i, s) in data.iter().enumerate() {
        if endcounter == Some(0) {
            out.push(std::mem::take(&mut buf));
            endcounter = None;
        }
        // Last tag with this key on this sample wins (map semantics).
        let tv = tags.iter().filter(|t| t.0 == i as u64 && t.1 == key).filter_map(|t| if let TagValue::Bool(b) = t.2 { Some(b) } else { None }).next_back();
        if let Some(c) = endcounter {
            buf.push(*s);
            endcounter = Some(c - 1);
        } else if let Some(tv) = tv {
            if !tv {
                endcounter = Some(tail);
            } else {
                buf.push(*s);
            }
        } else if !buf.is_empty() {
            buf.push(*s);
        }
        if buf.len() > max_size {
            buf.clear();
            endcounter = None;
        }
    }
    out
}

fn b_stream_to_pdu(src: &mut Src, env: &Env) -> Case {
    let cap = env.cap::<f32>();
    let n = gen_len(src, cap);
    let data: Vec<f32> = (0..n).map(|i| i as f32).collect();
    // Burst tags: alternate true/false at seeded positions, one per sample.
    let mut tags: Vec<TagRec> = Vec::new();
    let mut pos = src.below(20);
    let mut on = true;
    while pos < n {
        tags.push((pos as u64, "burst".into(), TagValue::Bool(on)));
        if src.chance(1, 10) {
            // unrelated tag on the same sample
            tags.push((pos as u64, "other".into(), TagValue::U64(pos as u64)));
        }
        on = if src.chance(1, 8) { on } else { !on };
        pos += src.range(1, 60);
    }
    let max_size = *src.pick(&[10usize, 50, 1000]);
    let tail = *src.pick(&[0usize, 1, 5]);
    let (p, r) = StreamIn::new(data, tags);
    let (blk, o) = StreamToPdu::new(r, "burst", max_size, tail);
    let mut c = Case::new("StreamToPdu", format!("len {n} max {max_size} tail {tail}"), Box::new(blk));
    c.ins = vec![p];
    c.outs = vec![NcOut::new(o, ser_vec::<f32>)];
    c.reference = Some(Box::new(move |c, complete| {
        let i = c.in_typed::<f32>(0);
        let exp = stream_to_pdu_model(&i.data, &i.tags, "burst", max_size, tail);
        let got = &c.out_nc::<Vec<f32>>(0).got;
        for (k, (g, e)) in got.iter().zip(&exp).enumerate() {
            if g != e {
                return Err(format!("StreamToPdu: packet {k} has {} samples starting {:?}, model says {} starting {:?}", g.len(), g.first(), e.len(), e.first()));
            }
        }
        if got.len() > exp.len() || (complete && got.len() < exp.len()) {
            return Err(format!("StreamToPdu: {} packets, model says {}", got.len(), exp.len()));
        }
        Ok(())
    }));
    c
}

/// Tags on an input whose block does not forward them (or on an input whose
/// tags are documented as ignored): they must make no difference to the
/// samples, whatever the chunking.
fn stray_tags(src: &mut Src, n: usize, cap: usize) -> Vec<TagRec> {
    if src.chance(1, 3) { gen_tags(src, n, cap) } else { vec![] }
}

fn b_to_text(src: &mut Src, env: &Env) -> Case {
    let nsrc = src.range(1, 3);
    let n = gen_len_small(src, env.cap::<u8>() / 8).min(600);
    let mut ins: Vec<Box<dyn InPort>> = Vec::new();
    let mut rs = Vec::new();
    // Tags of a sample are printed with it (format not specified: with tags
    // present only the one-shot / chunked comparison applies).
    let tagged = src.chance(1, 3);
    for _ in 0..nsrc {
        let d = gen_u8_vec(src, n);
        let t = if tagged { gen_tags(src, n, env.cap::<u8>()) } else { vec![] };
        let (p, r) = StreamIn::new(d, t);
        ins.push(p);
        rs.push(r);
    }
    let (blk, o) = ToText::new(rs);
    let mut c = Case::new("ToText", format!("len {n} x {nsrc}"), Box::new(blk));
    c.ins = ins;
    c.outs = vec![StreamOut::new(o)];
    c.reference = Some(Box::new(move |c, complete| {
        if tagged {
            return Ok(());
        }
        let mut exp = Vec::new();
        for i in 0..n {
            let line: Vec<String> = (0..nsrc).map(|k| format!("{:?}", c.in_typed::<u8>(k).data[i])).collect();
            exp.extend((line.join(" ") + "\n").into_bytes());
        }
        expect_exact("ToText", &c.out_typed::<u8>(0).got, &exp, complete)
    }));
    c
}

fn b_fft_stream(src: &mut Src, env: &Env) -> Case {
    // (83, 107, 166, 214: sizes whose FFT plan wants more scratch than a frame)
    let size = *src.pick(&[1usize, 2, 4, 8, 16, 3, 5, 83, 107, 166, 214]);
    let n = gen_len_small(src, env.cap::<Complex>());
    let data = gen_complex_tame(src, n);
    let stray = stray_tags(src, n, 1024);
    let (p, r) = StreamIn::new(data, stray);
    let (mut blk, o) = FftStream::new(r, size);
    let threaded = src.chance(1, 3);
    if threaded {
        blk.threaded(true);
    }
    let mut c = Case::new("FftStream", format!("len {n} size {size} threaded {threaded}"), Box::new(blk));
    c.ins = vec![p];
    c.outs = vec![StreamOut::new(o)];
    c.needs_items = size;
    c.reference = Some(Box::new(move |c, complete| {
        let d = &c.in_typed::<Complex>(0).data;
        let got = &c.out_typed::<Complex>(0).got;
        let frames = d.len() / size;
        if got.len() > frames * size || got.len() % size != 0 || (complete && got.len() != frames * size) {
            return Err(format!("FftStream: {} samples emitted for {} input samples with frame size {size}", got.len(), d.len()));
        }
        // Naive DFT in f64 as the reference.
        for f in 0..got.len() / size {
            for k in 0..size {
                let mut re = 0f64;
                let mut im = 0f64;
                let mut mag = 0f64;
                for (j, x) in d[f * size..(f + 1) * size].iter().enumerate() {
                    let ang = -2.0 * std::f64::consts::PI * (k * j) as f64 / size as f64;
                    re += x.re as f64 * ang.cos() - x.im as f64 * ang.sin();
                    im += x.re as f64 * ang.sin() + x.im as f64 * ang.cos();
                    mag += (x.re as f64).abs() + (x.im as f64).abs();
                }
                let g = got[f * size + k];
                let tol = 1e-4 * (1.0 + mag);
                if (g.re as f64 - re).abs() > tol || (g.im as f64 - im).abs() > tol {
                    return Err(format!("FftStream: frame {f} bin {k} is {g:?}, DFT says ({re},{im})"));
                }
            }
        }
        Ok(())
    }));
    c
}

// ---------------------------------------------------------------------------
// DSP kernels (C11).

fn conv_bound(taps: &[f64], xs: &[f64]) -> f64 {
    let s: f64 = taps.iter().zip(xs).map(|(t, x)| (t * x).abs()).sum();
    64.0 * (f32::EPSILON as f64) * s + 1e-30
}

fn gen_taps(src: &mut Src) -> Vec<f32> {
    let nt = match src.below(6) {
        0 => 1,
        1 => 2,
        2 => src.range(3, 9),
        3 => src.range(10, 40),
        4 => src.range(41, 200),
        _ => src.range(1, 64),
    };
    match src.below(4) {
        0 => {
            let mut t = vec![0.0; nt];
            t[src.below(nt)] = 1.0;
            t
        }
        1 => vec![1.0 / nt as f32; nt],
        _ => (0..nt).map(|_| (src.below(2001) as f32 - 1000.0) / 1000.0).collect(),
    }
}

fn b_fir_f(src: &mut Src, env: &Env) -> Case {
    let cap = env.cap::<f32>();
    let mut taps = gen_taps(src);
    let deci = match src.below(4) {
        0 => 1,
        _ => src.range(1, 8),
    };
    taps.truncate((cap / 2).max(1));
    let n = gen_len_small(src, cap);
    let data = gen_f32_tame(src, n);
    let tags = gen_tags(src, n, cap);
    let (p, r) = StreamIn::new(data, tags);
    let (blk, o) = FirFilterBuilder::new(&taps).deci(deci).build(r);
    let nt = taps.len();
    let mut c = Case::new("FirFilter<f32>", format!("len {n} ntaps {nt} deci {deci}"), Box::new(blk));
    c.ins = vec![p];
    c.outs = vec![StreamOut::new(o)];
    c.needs_items = nt + deci;
    c.reference = Some(Box::new(move |c, complete| {
        let d = &c.in_typed::<f32>(0).data;
        let got = &c.out_typed::<f32>(0).got;
        let cnt = if d.len() >= nt { (d.len() - nt + 1) / deci } else { 0 };
        // FIR needs ntaps+deci-1 samples to start a call; with a remainder the
        // exact count for a complete run is ((len - ntaps + 1) / deci).
        if got.len() > cnt + 0 && got.len() > (d.len().saturating_sub(nt) / deci) + 1 {
            return Err(format!("FirFilter: {} outputs for {} inputs, ntaps {nt}, deci {deci}", got.len(), d.len()));
        }
        if complete && got.len() != cnt {
            return Err(format!("FirFilter: {} outputs for {} inputs (ntaps {nt}, deci {deci}); sliding dot product gives {cnt}", got.len(), d.len()));
        }
        let t64: Vec<f64> = taps.iter().map(|&t| t as f64).collect();
        for (k, g) in got.iter().enumerate() {
            let start = k * deci;
            // y[k] = sum_j taps[j] * x[start + ntaps-1-j]
            let xs: Vec<f64> = (0..nt).map(|j| d[start + nt - 1 - j] as f64).collect();
            let y: f64 = t64.iter().zip(&xs).map(|(t, x)| t * x).sum();
            let b = conv_bound(&t64, &xs);
            if (*g as f64 - y).abs() > b {
                return Err(format!("FirFilter: output {k} is {g}, sliding dot product (phase anchored at sample 0) gives {y} (bound {b:e}; ntaps {nt}, deci {deci})"));
            }
        }
        Ok(())
    }));
    c.tag_expect = Some(Box::new(move |c| {
        let n = c.outs[0].collected();
        vec![in_tags::<f32>(c, 0).iter().map(|t| (t.0 / deci as u64, t.1.clone(), t.2.clone())).filter(|t| (t.0 as usize) < n).collect()]
    }));
    c
}

fn b_fir_c(src: &mut Src, env: &Env) -> Case {
    let cap = env.cap::<Complex>();
    let mut tf = gen_taps(src);
    tf.truncate((cap / 2).max(1));
    let taps: Vec<Complex> = tf.iter().enumerate().map(|(i, &t)| Complex::new(t, if i % 2 == 0 { 0.0 } else { t * 0.5 })).collect();
    let deci = src.range(1, 4);
    let n = gen_len_small(src, cap);
    let data = gen_complex_tame(src, n);
    let (p, r) = StreamIn::new(data, vec![]);
    let (blk, o) = FirFilterBuilder::new(&taps).deci(deci).build(r);
    let nt = taps.len();
    let mut c = Case::new("FirFilter<Complex>", format!("len {n} ntaps {nt} deci {deci}"), Box::new(blk));
    c.ins = vec![p];
    c.outs = vec![StreamOut::new(o)];
    c.needs_items = nt + deci;
    c.reference = Some(Box::new(move |c, complete| {
        let d = &c.in_typed::<Complex>(0).data;
        let got = &c.out_typed::<Complex>(0).got;
        let cnt = if d.len() >= nt { (d.len() - nt + 1) / deci } else { 0 };
        if got.len() > cnt || (complete && got.len() != cnt) {
            return Err(format!("FirFilter<Complex>: {} outputs for {} inputs (ntaps {nt}, deci {deci}); expected {cnt}", got.len(), d.len()));
        }
        for (k, g) in got.iter().enumerate() {
            let start = k * deci;
            let (mut re, mut im, mut mag) = (0f64, 0f64, 0f64);
            for j in 0..nt {
                let x = d[start + nt - 1 - j];
                let t = taps[j];
                re += t.re as f64 * x.re as f64 - t.im as f64 * x.im as f64;
                im += t.re as f64 * x.im as f64 + t.im as f64 * x.re as f64;
                mag += (t.norm() as f64) * (x.norm() as f64);
            }
            let b = 64.0 * f32::EPSILON as f64 * mag + 1e-30;
            if (g.re as f64 - re).abs() > b || (g.im as f64 - im).abs() > b {
                return Err(format!("FirFilter<Complex>: output {k} is {g:?}, expected ({re},{im})"));
            }
        }
        Ok(())
    }));
    c
}

/// Full linear convolution with zero pre-history, in f64.
fn conv_full(taps: &[Complex], d: &[Complex], k: usize) -> (f64, f64, f64) {
    let (mut re, mut im, mut mag) = (0f64, 0f64, 0f64);
    for (j, t) in taps.iter().enumerate() {
        if k >= j && k - j < d.len() {
            let x = d[k - j];
            re += t.re as f64 * x.re as f64 - t.im as f64 * x.im as f64;
            im += t.re as f64 * x.im as f64 + t.im as f64 * x.re as f64;
            mag += (t.norm() as f64) * (x.norm() as f64);
        }
    }
    (re, im, mag)
}

fn fft_block_len(ntaps: usize) -> usize {
    let mut n = 1;
    while n < ntaps {
        n <<= 1;
    }
    2 * n - ntaps
}

fn b_fft_filter(src: &mut Src, env: &Env) -> Case {
    let cap = env.cap::<Complex>();
    let mut tf = gen_taps(src);
    // The block needs fft_size - ntaps output space at once.
    while fft_block_len(tf.len()) > cap / 2 {
        tf.truncate(tf.len() / 2);
    }
    let taps: Vec<Complex> = tf.iter().map(|&t| Complex::new(t, 0.0)).collect();
    let n = gen_len_small(src, cap);
    let data = gen_complex_tame(src, n);
    let tags = gen_tags(src, n, cap);
    let (p, r) = StreamIn::new(data, tags);
    let (blk, o) = FftFilter::new(r, &taps);
    let nt = taps.len();
    let bl = fft_block_len(nt);
    let mut c = Case::new("FftFilter", format!("len {n} ntaps {nt} block {bl}"), Box::new(blk));
    c.ins = vec![p];
    c.outs = vec![StreamOut::new(o)];
    c.needs_items = bl;
    c.reference = Some(Box::new(move |c, complete| {
        let d = &c.in_typed::<Complex>(0).data;
        let got = &c.out_typed::<Complex>(0).got;
        // How many samples an overlap-save filter holds back at the end is its
        // block size, an implementation choice (today `bl`): never more
        // outputs than inputs, and once the input is complete less than a few
        // blocks missing.
        let slack = 8 * (bl + nt);
        if got.len() > d.len() || (complete && got.len() + slack <= d.len()) {
            return Err(format!("FftFilter: {} outputs for {} inputs (block {bl} today; up to {slack} may be held back)", got.len(), d.len()));
        }
        let fftn = (bl + nt) as f64;
        // FFT rounding error scales with the energy of the whole block, not
        // with the local convolution sum.
        let tsum: f64 = taps.iter().map(|t| t.norm() as f64).sum();
        let xmax: f64 = d.iter().map(|x| x.norm() as f64).fold(0.0, f64::max);
        let gb = 32.0 * f32::EPSILON as f64 * fftn.log2().max(1.0) * tsum * xmax + 1e-30;
        for (k, g) in got.iter().enumerate() {
            let (re, im, _mag) = conv_full(&taps, d, k);
            let b = gb;
            if (g.re as f64 - re).abs() > b || (g.im as f64 - im).abs() > b {
                return Err(format!("FftFilter: output {k} is {g:?}, linear convolution gives ({re},{im}) bound {b:e} (ntaps {nt})"));
            }
        }
        Ok(())
    }));
    c.tag_expect = Some(Box::new(tags_identity::<Complex>));
    c
}

fn b_fft_filter_float(src: &mut Src, env: &Env) -> Case {
    let cap = env.cap::<Complex>();
    let mut tf = gen_taps(src);
    while fft_block_len(tf.len()) > cap / 2 {
        tf.truncate(tf.len() / 2);
    }
    // Lengths against the capacity of the float streams (twice the inner
    // complex ones), so that the outer output does fill up.
    let n = gen_len_small(src, env.cap::<f32>());
    let data = gen_f32_tame(src, n);
    let tags = gen_tags(src, n, cap);
    let (p, r) = StreamIn::new(data, tags);
    let (blk, o) = FftFilterFloat::new(r, &tf);
    let nt = tf.len();
    let bl = fft_block_len(nt);
    let taps: Vec<Complex> = tf.iter().map(|&t| Complex::new(t, 0.0)).collect();
    let mut c = Case::new("FftFilterFloat", format!("len {n} ntaps {nt} block {bl}"), Box::new(blk));
    c.ins = vec![p];
    c.outs = vec![StreamOut::new(o)];
    c.needs_items = bl;
    c.reference = Some(Box::new(move |c, complete| {
        let d: Vec<Complex> = c.in_typed::<f32>(0).data.iter().map(|&x| Complex::new(x, 0.0)).collect();
        let got = &c.out_typed::<f32>(0).got;
        let slack = 8 * (bl + nt);
        if got.len() > d.len() || (complete && got.len() + slack <= d.len()) {
            return Err(format!("FftFilterFloat: {} outputs for {} inputs (block {bl} today; up to {slack} may be held back)", got.len(), d.len()));
        }
        let fftn = (bl + nt) as f64;
        let tsum: f64 = taps.iter().map(|t| t.norm() as f64).sum();
        let xmax: f64 = d.iter().map(|x| x.norm() as f64).fold(0.0, f64::max);
        let gb = 32.0 * f32::EPSILON as f64 * fftn.log2().max(1.0) * tsum * xmax + 1e-30;
        for (k, g) in got.iter().enumerate() {
            let (re, _im, _mag) = conv_full(&taps, &d, k);
            let b = gb;
            if (*g as f64 - re).abs() > b {
                return Err(format!("FftFilterFloat: output {k} is {g}, linear convolution gives {re} bound {b:e} (ntaps {nt})"));
            }
        }
        Ok(())
    }));
    c.tag_expect = Some(Box::new(tags_identity::<f32>));
    c
}

fn hilbert_taps_ref(ntaps: usize, wt: &WindowType) -> Vec<f64> {
    // Documented construction: odd-indexed 1/i taps, antisymmetric, windowed,
    // normalised.
    let w = wt.make_window(ntaps).0;
    let mid = (ntaps - 1) / 2;
    let mut taps = vec![0f64; ntaps];
    let mut gain = 0f64;
    for i in 1..=mid {
        if i & 1 == 1 {
            let x = 1.0 / i as f64;
            taps[mid + i] = x * w[mid + i] as f64;
            taps[mid - i] = -x * w[mid - i] as f64;
            gain = taps[mid + i] - gain;
        }
    }
    let g = 1.0 / (2.0 * gain.abs());
    taps.iter().map(|t| t * g).collect()
}

fn b_hilbert(src: &mut Src, env: &Env) -> Case {
    let cap = env.cap::<Complex>();
    let ntaps = *src.pick(&[3usize, 5, 7, 11, 33, 65, 127]);
    let n = gen_len_small(src, cap);
    let data = gen_f32_tame(src, n);
    let tags = gen_tags(src, n, cap);
    let (p, r) = StreamIn::new(data, tags);
    let (blk, o) = Hilbert::new(r, ntaps, &WindowType::Hamming);
    let mut c = Case::new("Hilbert", format!("len {n} ntaps {ntaps}"), Box::new(blk));
    c.ins = vec![p];
    c.outs = vec![StreamOut::new(o)];
    c.reference = Some(Box::new(move |c, complete| {
        let d = &c.in_typed::<f32>(0).data;
        let got = &c.out_typed::<Complex>(0).got;
        if got.len() > d.len() || (complete && got.len() != d.len()) {
            return Err(format!("Hilbert: {} outputs for {} inputs", got.len(), d.len()));
        }
        let taps = hilbert_taps_ref(ntaps, &WindowType::Hamming);
        let delay = (ntaps + 1) / 2;
        // iv = ntaps zeros ++ input; out[k].re = iv[k + ntaps/2];
        // out[k].im = sum_j taps[j] * iv[k + ntaps - 1 - j]
        let iv = |idx: isize| -> f64 { let i = idx - ntaps as isize; if i < 0 { 0.0 } else { d[i as usize] as f64 } };
        for (k, g) in got.iter().enumerate() {
            let re = if k >= delay { d[k - delay] as f64 } else { 0.0 };
            if (g.re as f64 - re).abs() > 0.0 {
                return Err(format!("Hilbert: output {k} real part {} but input delayed by {delay} is {re}", g.re));
            }
            let mut im = 0f64;
            let mut mag = 0f64;
            for (j, t) in taps.iter().enumerate() {
                let x = iv(k as isize + ntaps as isize - 1 - j as isize);
                im += t * x;
                mag += (t * x).abs();
            }
            let b = 64.0 * f32::EPSILON as f64 * mag + 1e-5 * mag + 1e-30;
            if (g.im as f64 - im).abs() > b {
                return Err(format!("Hilbert: output {k} imaginary part {} but FIR with the Hilbert taps gives {im} (bound {b:e})", g.im));
            }
        }
        Ok(())
    }));
    c.tag_expect = Some(Box::new(tags_identity::<f32>));
    c
}

// ---------------------------------------------------------------------------
// Stateful framing / clock recovery blocks (A-vs-B only).

fn b_symbol_sync(src: &mut Src, env: &Env) -> Case {
    let cap = env.cap::<f32>();
    let sps = *src.pick(&[2.5f32, 4.0, 5.2083335, 8.0, 10.0]);
    // Input lengths against the capacity in symbols, so that the symbol
    // output (and the clock output) can fill up.
    let n = gen_len(src, (cap as f32 * sps) as usize);
    // NRZ-ish waveform with seeded symbol timing so that crossings happen.
    let mut data = Vec::with_capacity(n);
    let mut level = 1.0f32;
    let mut next = sps * (src.below(100) as f32 / 100.0);
    for i in 0..n {
        if i as f32 >= next {
            if src.coin() {
                level = -level;
            }
            next += sps;
        }
        // Magnitude varies along each symbol, so that the output shows which
        // sample of a symbol was taken.
        data.push(level * (0.5 + (i % 64) as f32 / 128.0));
    }
    // One case in twenty-five: signal, then more than 100 000 samples without
    // a sign change (the block's long-silence fallback), then signal again.
    if src.chance(1, 25) {
        let sps_i = 8usize;
        let square = |n: usize, v: &mut Vec<f32>| {
            for i in 0..n {
                let mag = 0.5 + (v.len() % 64) as f32 / 128.0;
                v.push(if (i / sps_i) % 2 == 0 { mag } else { -mag });
            }
        };
        data.clear();
        square(1600 - sps_i, &mut data); // ends on a positive symbol
        let silence = 108_000 + src.below(8);
        for _ in 0..silence {
            let mag = 0.5 + (data.len() % 64) as f32 / 128.0;
            data.push(mag);
        }
        square(3200, &mut data);
    }
    let long = data.len() > 100_000;
    let sps = if data.len() > 100_000 { 8.0 } else { sps };
    let n = data.len();
    let (p, r) = StreamIn::new(data, vec![]);
    let (taps, dev) = if long || src.coin() { ([0.5f32, 0.5], 0.5) } else { ([0.1, 0.9], 0.1) };
    let filt = rustradio::iir_filter::IirFilter::new(&taps);
    let (mut blk, o) = SymbolSync::new(r, sps, dev, Box::new(rustradio::symbol_sync::TedZeroCrossing::new()), Box::new(filt));
    // Half the time with the optional clock output connected: a second output
    // whose reader runs at its own pace.
    let clock = if long || src.coin() { blk.out_clock() } else { None };
    let mut c = Case::new("SymbolSync", format!("len {n} sps {sps} clock_out {}", clock.is_some()), Box::new(blk));
    c.ins = vec![p];
    c.outs = vec![StreamOut::new(o)];
    if let Some(ck) = clock {
        c.outs.push(StreamOut::new(ck));
    }
    c
}

fn b_zero_crossing(src: &mut Src, env: &Env) -> Case {
    let cap = env.cap::<f32>();
    let sps = *src.pick(&[2.5f32, 4.0, 5.2083335, 8.0, 10.0]);
    let n = gen_len(src, (cap as f32 * sps) as usize);
    let mut data = Vec::with_capacity(n);
    let mut level = 1.0f32;
    let mut next = sps * (src.below(100) as f32 / 100.0);
    for i in 0..n {
        if i as f32 >= next {
            if src.coin() {
                level = -level;
            }
            next += sps;
        }
        // Magnitude varies along each symbol, so that the output shows which
        // sample of a symbol was taken.
        data.push(level * (0.5 + (i % 64) as f32 / 128.0));
    }
    let (p, r) = StreamIn::new(data, vec![]);
    let (mut blk, o) = ZeroCrossing::new(r, sps, 0.1);
    let clock = if src.coin() { Some(blk.out_clock()) } else { None };
    let mut c = Case::new("ZeroCrossing", format!("len {n} sps {sps} clock_out {}", clock.is_some()), Box::new(blk));
    c.ins = vec![p];
    c.outs = vec![StreamOut::new(o)];
    if let Some(ck) = clock {
        c.outs.push(StreamOut::new(ck));
    }
    c
}

fn b_hdlc(src: &mut Src, env: &Env) -> Case {
    let cap = env.cap::<u8>();
    // Bits with embedded frames: reuse the transmitter of the C13 module.
    let nframes = src.range(0, 4);
    let pre = src.below(40);
    let mut bits = gen_bits(src, pre);
    for _ in 0..nframes {
        let l = src.range(2, 40);
        let payload = gen_u8_vec(src, l);
        bits.extend(crate::hdlc::frame_bits(&payload, true, src.range(1, 3)));
        if src.coin() {
            let gap = src.below(20);
            bits.extend(gen_bits(src, gap));
        }
    }
    let _ = cap;
    let n = bits.len();
    let (p, r) = StreamIn::new(bits, vec![]);
    let (blk, o) = HdlcDeframer::new(r, 2, 100);
    let mut c = Case::new("HdlcDeframer", format!("bits {n} frames {nframes}"), Box::new(blk));
    c.ins = vec![p];
    c.outs = vec![NcOut::new(o, ser_vec::<u8>)];
    c
}

fn b_il2p(src: &mut Src, env: &Env) -> Case {
    let n = gen_len(src, env.cap::<u8>());
    let bits = gen_bits(src, n);
    let mut tags: Vec<TagRec> = Vec::new();
    let mut pos = src.below(50);
    while pos < n {
        tags.push((pos as u64, "sync".into(), TagValue::U64(0)));
        pos += src.range(1, 400);
    }
    let (p, r) = StreamIn::new(bits, tags);
    let (blk, o) = Il2pDeframer::new(r);
    let mut c = Case::new("Il2pDeframer", format!("bits {n}"), Box::new(blk));
    c.ins = vec![p];
    c.outs = vec![NcOut::new(o, ser_vec::<u8>)];
    c
}

fn b_au_encode(src: &mut Src, env: &Env) -> Case {
    // 2 output bytes per sample plus the header: enough to fill the output.
    let n = gen_len(src, env.cap::<u8>() / 2);
    let data = gen_f32_vec(src, n, true);
    let stray = stray_tags(src, n, 1024);
    let (p, r) = StreamIn::new(data, stray);
    let rate = *src.pick(&[8000u32, 44100, 48000]);
    let (blk, o) = AuEncode::new(r, rustradio::au::Encoding::Pcm16, rate, 1);
    let mut c = Case::new("AuEncode", format!("len {n} rate {rate}"), Box::new(blk));
    c.ins = vec![p];
    c.outs = vec![StreamOut::new(o)];
    c.reference = Some(Box::new(move |c, complete| {
        let d = &c.in_typed::<f32>(0).data;
        let q: Vec<i16> = d
            .iter()
            .map(|x| {
                let v = x * 32767.0;
                if v.is_nan() { 0 } else if v >= 32767.0 { 32767 } else if v <= -32768.0 { -32768 } else { v.trunc() as i16 }
            })
            .collect();
        au_check(&c.out_typed::<u8>(0).got, rate, &q, complete).map_err(|e| format!("AuEncode: {e}"))
    }));
    c
}

/// Is `bytes` (a prefix of) a valid .au stream of these PCM16 samples? The
/// header is checked field by field, not byte for byte: magic, data offset
/// (>= 24, at most 1 KiB: any annotation length is allowed), size (unknown or
/// the true size), encoding 3, rate, one channel; the samples follow at the
/// data offset. `complete`: everything must be there.
pub fn au_check(bytes: &[u8], rate: u32, samples: &[i16], complete: bool) -> Result<(), String> {
    let be = |i: usize| u32::from_be_bytes([bytes[i], bytes[i + 1], bytes[i + 2], bytes[i + 3]]);
    if bytes.len() < 24 {
        if complete {
            return Err(format!("{} bytes emitted: shorter than the fixed part of an .au header", bytes.len()));
        }
        // Prefix of a header: the magic, as far as it goes.
        let m = 0x2e736e64u32.to_be_bytes();
        for (i, b) in bytes.iter().take(4).enumerate() {
            if *b != m[i] {
                return Err(format!("byte {i} is {b:#x}: not the .au magic"));
            }
        }
        return Ok(());
    }
    if be(0) != 0x2e736e64 {
        return Err(format!("magic is {:#x}", be(0)));
    }
    let off = be(4) as usize;
    if !(24..=1024).contains(&off) {
        return Err(format!("data offset {off} (must be >= 24)"));
    }
    let size = be(8);
    if size != 0xffff_ffff && size as usize != samples.len() * 2 {
        return Err(format!("size field {size}, {} bytes of samples follow", samples.len() * 2));
    }
    if be(12) != 3 {
        return Err(format!("encoding {} (16-bit linear PCM is 3)", be(12)));
    }
    if be(16) != rate {
        return Err(format!("sample rate field {}, block was given {rate}", be(16)));
    }
    if be(20) != 1 {
        return Err(format!("channels field {}", be(20)));
    }
    if bytes.len() < off {
        return if complete { Err(format!("{} bytes emitted, header says samples start at {off}", bytes.len())) } else { Ok(()) };
    }
    let body = &bytes[off..];
    if body.len() > samples.len() * 2 || (complete && body.len() != samples.len() * 2) {
        return Err(format!("{} bytes of samples emitted for {} input samples", body.len(), samples.len()));
    }
    for (k, ch) in body.chunks(2).enumerate() {
        let want = samples[k].to_be_bytes();
        if ch[0] != want[0] || (ch.len() > 1 && ch[1] != want[1]) {
            return Err(format!("sample {k} is {ch:02x?}, big-endian PCM16 of the input is {want:02x?}"));
        }
    }
    Ok(())
}

pub fn au_bytes(rate: u32, samples: &[i16]) -> Vec<u8> {
    let mut v: Vec<u8> = Vec::new();
    v.extend(0x2e736e64u32.to_be_bytes());
    v.extend(28u32.to_be_bytes());
    v.extend(0xffffffffu32.to_be_bytes());
    v.extend(3u32.to_be_bytes());
    v.extend(rate.to_be_bytes());
    v.extend(1u32.to_be_bytes());
    v.extend([0u8; 4]);
    for s in samples {
        v.extend(s.to_be_bytes());
    }
    v
}

fn b_au_decode(src: &mut Src, env: &Env) -> Case {
    let n = gen_len(src, env.cap::<u8>() / 2);
    let samples: Vec<i16> = (0..n).map(|_| src.below(65536) as u16 as i16).collect();
    let rate = 44100;
    let bytes = au_bytes(rate, &samples);
    let (p, r) = StreamIn::new(bytes, vec![]);
    let (blk, o) = AuDecode::new(r, rate);
    let mut c = Case::new("AuDecode", format!("samples {n}"), Box::new(blk));
    c.ins = vec![p];
    c.outs = vec![StreamOut::new(o)];
    c.needs_items = 20;
    c.reference = Some(Box::new(move |c, complete| {
        let exp: Vec<f32> = samples.iter().map(|&s| s as f32 / 32767.0).collect();
        expect_exact("AuDecode", &c.out_typed::<f32>(0).got, &exp, complete)
    }));
    c
}

fn b_cma(src: &mut Src, env: &Env) -> Case {
    let cap = env.cap::<Complex>();
    let ntaps = src.range(1, 8);
    let n = gen_len_small(src, cap);
    let mut data = gen_complex_tame(src, n);
    // Now and then a few non-finite samples (what they do to the taps must
    // not depend on how much input happened to be visible).
    if n > 0 && src.chance(1, 3) {
        for _ in 0..src.range(1, 3) {
            let at = src.below(n);
            data[at] = *src.pick(&[Complex::new(f32::INFINITY, 0.0), Complex::new(0.0, f32::NEG_INFINITY), Complex::new(f32::NAN, 1.0), Complex::new(f32::MAX, f32::MAX)]);
        }
    }
    let stray = stray_tags(src, n, 1024);
    let (p, r) = StreamIn::new(data, stray);
    let (blk, o) = CmaEqualizer::new(ntaps, 1.0, 0.001, r);
    let mut c = Case::new("CmaEqualizer", format!("len {n} ntaps {ntaps}"), Box::new(blk));
    c.ins = vec![p];
    c.outs = vec![StreamOut::new(o)];
    c.needs_items = ntaps;
    c
}

// ---------------------------------------------------------------------------
// Sources and sinks.

fn b_constant_source(src: &mut Src, _env: &Env) -> Case {
    let v = src.bits() as u32;
    let (blk, o) = ConstantSource::new(v);
    let mut c = Case::new("ConstantSource", format!("val {v}"), Box::new(blk));
    c.outs = vec![StreamOut::new(o)];
    c.infinite = true;
    c.reference = Some(Box::new(move |c, _complete| {
        let got = &c.out_typed::<u32>(0).got;
        if let Some(i) = got.iter().position(|x| *x != v) {
            return Err(format!("ConstantSource: sample {i} is {} not {v}", got[i]));
        }
        Ok(())
    }));
    c
}

fn b_signal_source(src: &mut Src, _env: &Env) -> Case {
    let rate = *src.pick(&[8000.0f32, 48000.0, 50000.0]);
    let freq = *src.pick(&[100.0f32, 1200.0, 440.0, 0.0]);
    let amp = *src.pick(&[1.0f32, 0.5]);
    let (blk, o) = SignalSourceFloat::new(rate, freq, amp);
    let mut c = Case::new("SignalSourceFloat", format!("rate {rate} freq {freq} amp {amp}"), Box::new(blk));
    c.outs = vec![StreamOut::new(o)];
    c.infinite = true;
    c
}

fn b_signal_source_c(src: &mut Src, _env: &Env) -> Case {
    let rate = *src.pick(&[8000.0f32, 48000.0]);
    let freq = *src.pick(&[100.0f32, 1200.0]);
    let (blk, o) = SignalSourceComplex::new(rate, freq, 1.0);
    let mut c = Case::new("SignalSourceComplex", format!("rate {rate} freq {freq}"), Box::new(blk));
    c.outs = vec![StreamOut::new(o)];
    c.infinite = true;
    c
}

fn b_vector_source(src: &mut Src, env: &Env) -> Case {
    let cap = env.cap::<u32>();
    let n = gen_len(src, cap).min(2 * cap + 5);
    let data: Vec<u32> = (0..n as u32).collect();
    let (blk, o) = VectorSource::new(data.clone());
    let mut c = Case::new("VectorSource", format!("len {n}"), Box::new(blk));
    c.outs = vec![StreamOut::new(o)];
    c.reference = Some(Box::new(move |c, complete| expect_exact("VectorSource", &c.out_typed::<u32>(0).got, &data, complete)));
    c
}

fn b_vector_source_u8(src: &mut Src, env: &Env) -> Case {
    let cap = env.cap::<u8>();
    let n = gen_len(src, cap).min(3 * cap + 5);
    let data: Vec<u8> = gen_u8_vec(src, n);
    let (mut blk, o) = VectorSource::new(data.clone());
    let reps = *src.pick(&[1u64, 1, 2, 3]);
    if reps != 1 {
        blk.set_repeat(rustradio::Repeat::finite(reps));
    }
    let mut c = Case::new("VectorSource<u8>", format!("len {n} repeat {reps}"), Box::new(blk));
    c.outs = vec![StreamOut::new(o)];
    c.reference = Some(Box::new(move |c, complete| {
        let exp: Vec<u8> = (0..reps).flat_map(|_| data.iter().copied()).collect();
        expect_exact("VectorSource<u8>", &c.out_typed::<u8>(0).got, &exp, complete)
    }));
    c
}

fn b_null_sink(src: &mut Src, env: &Env) -> Case {
    let n = gen_len(src, env.cap::<u8>());
    let stray = stray_tags(src, n, 1024);
    let (p, r) = StreamIn::new(gen_u8_vec(src, n), stray);
    let blk = NullSink::new(r);
    let mut c = Case::new("NullSink", format!("len {n}"), Box::new(blk));
    c.ins = vec![p];
    c
}

fn b_vector_sink(src: &mut Src, env: &Env) -> Case {
    let cap = env.cap::<u32>();
    let n = gen_len(src, cap);
    let data = gen_u32_vec(src, n);
    let tags = gen_tags(src, n, cap);
    let (p, r) = StreamIn::new(data, tags);
    let max = if src.chance(1, 4) { n / 2 } else { n + 10 };
    let blk = VectorSink::new(r, max);
    let hook = blk.hook();
    let mut c = Case::new("VectorSink", format!("len {n} max {max}"), Box::new(blk));
    c.ins = vec![p];
    c.reference = Some(Box::new(move |c, complete| {
        let d = &c.in_typed::<u32>(0).data;
        let exp: Vec<u32> = d.iter().take(max).copied().collect();
        let h = hook.data();
        expect_exact("VectorSink", h.samples(), &exp, complete)
    }));
    c
}

fn b_hasher(src: &mut Src, env: &Env) -> Case {
    let n = gen_len(src, env.cap::<u8>());
    let stray = stray_tags(src, n, 1024);
    let (p, r) = StreamIn::new(gen_u8_vec(src, n), stray);
    let (blk, o) = rustradio::blocks::sha512(r);
    let mut c = Case::new("Hasher", format!("len {n}"), Box::new(blk));
    c.ins = vec![p];
    c.outs = vec![NcOut::new(o, ser_vec::<u8>)];
    // "Hash input until EOF, outputting the results": the digest is pushed
    // when the block is dropped.
    c.finish_by_drop = true;
    c.reference = Some(Box::new(|c, complete| {
        use sha2::Digest;
        let got = &c.out_nc::<Vec<u8>>(0).got;
        if !complete {
            return Ok(());
        }
        let want = sha2::Sha512::digest(&c.in_typed::<u8>(0).data).to_vec();
        if got.len() != 1 || got[0] != want {
            return Err(format!("Hasher: {} packets delivered after the block was dropped ({:02x?}...), expected exactly the SHA-512 of the {} input bytes", got.len(), got.first().map(|g| &g[..g.len().min(4)]), c.in_typed::<u8>(0).data.len()));
        }
        Ok(())
    }));
    c
}

fn b_debug_filter(src: &mut Src, env: &Env) -> Case {
    let n = gen_len_small(src, env.cap::<u8>()).min(500);
    let data = gen_u8_vec(src, n);
    // Tags are part of what it prints.
    let tags = if src.coin() { gen_tags(src, n, env.cap::<u8>()) } else { vec![] };
    let (p, r) = StreamIn::new(data, tags);
    let (blk, o) = DebugFilter::new(r);
    let mut c = Case::new("DebugFilter", format!("len {n}"), Box::new(blk));
    c.ins = vec![p];
    c.outs = vec![NcOut::new(o, ser_string)];
    c
}

fn b_midpointer(src: &mut Src, _env: &Env) -> Case {
    let np = src.range(0, 5);
    let packets: Vec<Vec<f32>> = (0..np).map(|_| { let l = src.range(4, 60); (0..l).map(|i| if (i / 3) % 2 == 0 { 1.0 + i as f32 * 0.01 } else { -1.0 }).collect() }).collect();
    let (p, r) = NcIn::new(packets);
    let (blk, o) = Midpointer::new(r);
    let mut c = Case::new("Midpointer", format!("{np} bursts"), Box::new(blk));
    c.ins = vec![p];
    c.outs = vec![NcOut::new(o, ser_vec::<f32>)];
    c
}

fn b_wpcr(src: &mut Src, _env: &Env) -> Case {
    let np = src.range(0, 4);
    let packets: Vec<Vec<f32>> = (0..np).map(|_| { let l = src.range(40, 300); let sps = src.range(3, 9); (0..l).map(|i| if (i / sps) % 2 == 0 { 0.7 } else { -0.7 }).collect() }).collect();
    let (p, r) = NcIn::new(packets);
    // With a sample rate the block also tags each packet with a frequency.
    let (blk, o) = if src.coin() { WpcrBuilder::new(r).samp_rate(*src.pick(&[50000.0f32, 1.0, 0.0])).build() } else { Wpcr::new(r) };
    let mut c = Case::new("Wpcr", format!("{np} bursts"), Box::new(blk));
    c.ins = vec![p];
    c.outs = vec![NcOut::new(o, ser_vec::<f32>)];
    c
}

macro_rules! ad {
    ($name:literal, $f:ident, $c10:expr, $c11:expr, $c12:expr) => {
        Adapter { name: $name, build: $f, c10: $c10, c11: $c11, c12: $c12 }
    };
}

pub fn registry() -> Vec<Adapter> {
    vec![
        ad!("Add", b_add, true, false, true),
        ad!("AddConst<f32>", b_add_const_f, true, false, true),
        ad!("AddConst<Complex>", b_add_const_c, true, false, true),
        ad!("add_const()", b_add_const_fn, true, false, true),
        ad!("MultiplyConst<f32>", b_mul_const_f, true, false, true),
        ad!("MultiplyConst<Complex>", b_mul_const_c, true, false, true),
        ad!("Xor", b_xor, true, false, true),
        ad!("XorConst<u8>", b_xor_const, true, false, true),
        ad!("XorConst<u32>", b_xor_const32, true, false, true),
        ad!("BinarySlicer", b_slicer, true, false, true),
        ad!("ComplexToMag2", b_mag2, true, false, true),
        ad!("FloatToComplex", b_f2c, true, false, true),
        ad!("Map", b_map, true, false, true),
        ad!("NrziDecode", b_nrzi, true, false, true),
        ad!("Descrambler", b_descrambler, true, false, true),
        ad!("CorrelateAccessCode", b_correlate, true, false, true),
        ad!("CorrelateAccessCodeTag", b_correlate_tag, true, false, true),
        ad!("QuadratureDemod", b_quad_demod, false, true, true),
        ad!("FastFM", b_fastfm, false, true, true),
        ad!("SinglePoleIirFilter<f32>", b_iir_f, false, true, true),
        ad!("SinglePoleIirFilter<Complex>", b_iir_c, false, true, true),
        ad!("Tee", b_tee, true, false, true),
        ad!("BurstTagger", b_burst_tagger, true, false, true),
        ad!("Delay", b_delay, true, false, true),
        ad!("Delay+set_delay", b_delay_change, true, false, true),
        ad!("Skip", b_skip, true, false, true),
        ad!("RationalResampler", b_resampler, true, false, false),
        ad!("RtlSdrDecode", b_rtlsdr, true, false, false),
        ad!("VecToStream", b_vec_to_stream, true, false, true),
        ad!("StreamToPdu", b_stream_to_pdu, true, false, false),
        ad!("ToText", b_to_text, true, false, false),
        ad!("FftStream", b_fft_stream, true, false, false),
        ad!("FirFilter<f32>", b_fir_f, false, true, true),
        ad!("FirFilter<Complex>", b_fir_c, false, true, false),
        ad!("FftFilter", b_fft_filter, false, true, true),
        ad!("FftFilterFloat", b_fft_filter_float, false, true, true),
        ad!("Hilbert", b_hilbert, false, true, true),
        ad!("SymbolSync", b_symbol_sync, false, false, false),
        ad!("ZeroCrossing", b_zero_crossing, false, false, false),
        ad!("HdlcDeframer", b_hdlc, false, false, false),
        ad!("Il2pDeframer", b_il2p, false, false, false),
        ad!("AuEncode", b_au_encode, true, false, false),
        ad!("AuDecode", b_au_decode, true, false, false),
        ad!("CmaEqualizer", b_cma, false, false, false),
        ad!("ConstantSource", b_constant_source, true, false, false),
        ad!("SignalSourceFloat", b_signal_source, false, false, false),
        ad!("SignalSourceComplex", b_signal_source_c, false, false, false),
        ad!("VectorSource", b_vector_source, true, false, false),
        ad!("NullSink", b_null_sink, true, false, false),
        ad!("VectorSink", b_vector_sink, true, false, false),
        ad!("Hasher", b_hasher, true, false, false),
        ad!("PduWriter", b_pdu_writer, true, false, false),
        ad!("VectorSource<u8>", b_vector_source_u8, true, false, false),
        ad!("DebugFilter", b_debug_filter, false, false, false),
        ad!("Midpointer", b_midpointer, false, false, false),
        ad!("Wpcr", b_wpcr, false, false, false),
    ]
}

#[allow(dead_code)]
fn _unused(case: &Case) -> Vec<TagRec> {
    let _ = Tag::new(0, "x", TagValue::Bool(true));
    identity_tags(case, 0)
}
