//! bufsim: operation-history simulator over one `Buffer<T>` / stream pair,
//! checked operation by operation against a deque reference model.
//! Decides C01 (data, counts, refusals) and C02 (tags).

use std::collections::VecDeque;
use std::sync::Arc;

use rustradio::Complex;
use rustradio::circular_buffer::Buffer;
use rustradio::stream::{ReadStream, Tag, TagValue, WriteStream, new_stream};
use serde_json::{Value, json};

use crate::engine::{Budget, Check, RunCtx, RunResult, Tier, Violation, catch};
use crate::rt::Solo;
use crate::src::Src;

pub trait Elem: Copy + PartialEq + std::fmt::Debug + Send + Sync + 'static {
    const NAME: &'static str;
    fn from_counter(c: u64) -> Self;
}
macro_rules! elem_int {
    ($t:ty, $n:literal) => {
        impl Elem for $t {
            const NAME: &'static str = $n;
            fn from_counter(c: u64) -> Self {
                // Spread so that low-width types still change every step.
                (c.wrapping_mul(0x9E37_79B9_7F4A_7C15) >> (64 - <$t>::BITS)) as $t
            }
        }
    };
}
elem_int!(u8, "u8");
elem_int!(u16, "u16");
elem_int!(u32, "u32");
elem_int!(u64, "u64");
impl Elem for f32 {
    const NAME: &'static str = "f32";
    fn from_counter(c: u64) -> Self {
        c as f32 * 0.5 + 1.0
    }
}
impl Elem for Complex {
    const NAME: &'static str = "Complex";
    fn from_counter(c: u64) -> Self {
        Complex::new(c as f32, -(c as f32) - 0.25)
    }
}
macro_rules! elem_arr {
    ($n:literal, $name:literal) => {
        impl Elem for [u8; $n] {
            const NAME: &'static str = $name;
            fn from_counter(c: u64) -> Self {
                let mut a = [0u8; $n];
                let mut x = c.wrapping_mul(0x9E37_79B9_7F4A_7C15) | 1;
                for b in a.iter_mut() {
                    *b = (x >> 56) as u8;
                    x = x.wrapping_mul(0x2545_F491_4F6C_DD1D).wrapping_add(c);
                }
                a
            }
        }
    };
}
elem_arr!(16, "[u8;16]");
elem_arr!(3, "[u8;3]");
elem_arr!(5, "[u8;5]");
elem_arr!(12, "[u8;12]");

/// Either a raw `Arc<Buffer<T>>` or a stream pair from `new_stream()`.
enum Ring<T: Elem> {
    Raw(Arc<Buffer<T>>),
    Stream(WriteStream<T>, ReadStream<T>),
}

type RB<T> = rustradio::circular_buffer::BufferReader<T>;
type WB<T> = rustradio::circular_buffer::BufferWriter<T>;

impl<T: Elem> Ring<T> {
    fn write_buf(&self) -> Result<WB<T>, String> {
        match self {
            Ring::Raw(b) => b.clone().write_buf().map_err(|e| e.to_string()),
            Ring::Stream(w, _) => w.write_buf().map_err(|e| e.to_string()),
        }
    }
    fn read_buf(&self) -> Result<(RB<T>, Vec<Tag>), String> {
        match self {
            Ring::Raw(b) => b.clone().read_buf().map_err(|e| e.to_string()),
            Ring::Stream(_, r) => r.read_buf().map_err(|e| e.to_string()),
        }
    }
    fn free(&self) -> usize {
        match self {
            Ring::Raw(b) => b.free(),
            Ring::Stream(w, _) => w.free(),
        }
    }
    fn total_size(&self) -> usize {
        match self {
            Ring::Raw(b) => b.total_size(),
            Ring::Stream(_, r) => r.total_size(),
        }
    }
    fn preroll(&self, pos: usize) {
        match self {
            Ring::Raw(b) => b.verif_preroll(pos),
            Ring::Stream(w, _) => w.verif_preroll(pos),
        }
    }
    fn positions(&self) -> (usize, usize, usize) {
        match self {
            Ring::Raw(b) => b.verif_positions(),
            Ring::Stream(w, _) => w.verif_positions(),
        }
    }
}

type MTag = (String, TagValue);

fn gen_tag(src: &mut Src, serial: &mut u64) -> MTag {
    *serial += 1;
    let key = match src.below(4) {
        0 => "k".to_string(),
        1 => "burst".to_string(),
        2 => format!("k{}", *serial % 3),
        _ => format!("uniq{}", *serial),
    };
    let val = match src.below(4) {
        0 => TagValue::U64(*serial),
        1 => TagValue::Bool(*serial % 2 == 0),
        2 => TagValue::Float(*serial as f32 + 0.5),
        _ => TagValue::String(format!("s{}", *serial)),
    };
    (key, val)
}

pub struct BufCheck {
    pub prop: &'static str, // "C01" or "C02"
}

struct Knobs {
    tag_heavy: bool,
    max_ops: usize,
}

fn page_size() -> usize {
    4096
}

impl BufCheck {
    fn scenario<T: Elem>(&self, src: &mut Src, ctx: &mut RunCtx, kn: &Knobs) -> RunResult {
        let prop = self.prop;
        let esz = std::mem::size_of::<T>();
        // Size: mostly k pages, sometimes a non-multiple (must be refused).
        let pages = if crate::engine::deep() {
            *src.pick(&[1usize, 1, 2, 3, 5, 6, 7, 8, 2, 3, 16, 33, 64])
        } else {
            *src.pick(&[1usize, 1, 1, 2, 3, 5, 6, 7, 8, 2, 3])
        };
        let bad_size = src.chance(1, 12);
        let size = if bad_size {
            *src.pick(&[1000usize, 4097, 6144, 2048, 4095, 12289, 0])
        } else {
            pages * page_size()
        };
        let via_stream = !bad_size && src.chance(1, 3);
        let divides = size % esz == 0;
        ctx.ev(|| format!("T={} size={} via_stream={}", T::NAME, size, via_stream));
        let made: Result<Result<Ring<T>, String>, _> = catch(|| {
            if via_stream {
                rustradio::verif::set_stream_size(size);
                let r = new_stream::<T>();
                rustradio::verif::set_stream_size(0);
                Ok(Ring::Stream(r.0, r.1))
            } else {
                Buffer::<T>::new(size).map(|b| Ring::Raw(Arc::new(b))).map_err(|e| e.to_string())
            }
        });
        rustradio::verif::set_stream_size(0);
        let ring = match made {
            Err(p) => {
                if via_stream && !divides {
                    // new_stream() documents no error path (it unwraps); a
                    // refused element size surfaces as this panic. Accepted.
                    ctx.count("nondividing_rejected");
                    return Ok(());
                }
                return Err(Violation::new(
                    format!("{prop}:new-panicked:{}", p.site()),
                    format!("Buffer::<{}>::new({size}) panicked: {} at {}", T::NAME, p.msg, p.loc),
                ));
            }
            Ok(Err(e)) => {
                if bad_size || !divides {
                    ctx.count(if bad_size { "bad_size_rejected" } else { "nondividing_rejected" });
                    ctx.nontrivial = true;
                    ctx.hash.add(size as u64 ^ 0xbad);
                    return Ok(());
                }
                return Err(Violation::new(
                    format!("{prop}:new-failed"),
                    format!("Buffer::<{}>::new({size}) failed on a valid size: {e}", T::NAME),
                ));
            }
            Ok(Ok(r)) => r,
        };
        if bad_size && size % page_size() != 0 {
            return Err(Violation::new(
                format!("{prop}:bad-size-accepted"),
                format!("Buffer::<{}>::new({size}) accepted a size that is not a page multiple", T::NAME),
            ));
        }
        if !divides {
            ctx.count("nondividing_accepted");
        }
        let cap = size / esz;
        // Start offset.
        let off = match src.below(6) {
            0 => 0,
            1 => cap - 1,
            2 => cap / 2,
            3 => cap - src.range(1, 8.min(cap)),
            4 => src.below(8.min(cap)),
            _ => src.below(cap),
        };
        if off != 0 {
            ring.preroll(off);
        }
        let mut model: VecDeque<(T, Vec<MTag>)> = VecDeque::new();
        let mut counter: u64 = src.draw(1 << 20);
        let mut serial: u64 = 0;
        let nops = src.range(1, kn.max_ops);
        let mut sample_ops: Vec<String> = Vec::new();
        let mut data_ok = true;

        macro_rules! viol {
            ($p:expr, $k:expr, $($arg:tt)*) => {
                return Err(Violation::new(format!("{}:{}", $p, $k), format!($($arg)*)))
            };
        }

        for opi in 0..nops {
            let op = src.weighted(&[30, 25, 8, 6, 5, 3, 6, 8, 4, 8, 8]);
            let used = model.len();
            let free = cap - used;
            let (rpos, _wpos, _u) = ring.positions();
            ctx.cell(&[
                (rpos * 8 / cap) as u64,
                (used * 8 / cap) as u64,
                (rpos + used > cap) as u64,
                model.iter().any(|m| !m.1.is_empty()) as u64,
                T::NAME.len() as u64,
            ]);
            if rpos + used > cap && used > 0 {
                ctx.count("readable_region_spans_wrap");
            }
            if used == cap && rpos != 0 {
                ctx.count("full_at_nonzero_offset");
            }
            match op {
                // write k, commit n <= k with tags
                0 => {
                    let mut w = match ring.write_buf() {
                        Ok(w) => w,
                        Err(e) => viol!(prop, "write_buf-err", "write_buf failed: {e}"),
                    };
                    if w.len() != free {
                        viol!("C01", "write-window-size", "op {opi}: write window has {} samples, model says free={} (cap {cap}, used {used})", w.len(), free);
                    }
                    let k = match src.below(6) {
                        0 => free,
                        1 => free.min(1),
                        2 => free.saturating_sub(1),
                        3 => src.below(free.min(16) + 1),
                        4 => {
                            // exactly up to the wrap point
                            let (_, wpos, _) = ring.positions();
                            (cap - wpos).min(free)
                        }
                        _ => src.below(free + 1),
                    };
                    let n = match src.below(4) {
                        0 => k,
                        1 => k.saturating_sub(1),
                        2 => src.below(k + 1),
                        _ => k,
                    };
                    let first = counter;
                    // Through the slice, or through the two convenience fillers
                    // blocks use (they write from the start of the window).
                    match src.below(4) {
                        0 => {
                            let v: Vec<T> = (0..k).map(|i| T::from_counter(first + i as u64)).collect();
                            w.fill_from_slice(&v);
                            ctx.count("filled_with_fill_from_slice");
                        }
                        1 => {
                            // The iterator may be longer than what is wanted or
                            // than the window: the filler stops at the shorter.
                            w.fill_from_iter((0..k).map(|i| T::from_counter(first + i as u64)));
                            ctx.count("filled_with_fill_from_iter");
                        }
                        _ => {
                            let sl = w.slice();
                            for (i, p) in sl.iter_mut().take(k).enumerate() {
                                *p = T::from_counter(first + i as u64);
                            }
                        }
                    }
                    counter += k as u64;
                    // Tags on committed samples.
                    let mut tags: Vec<Tag> = Vec::new();
                    let mut per: Vec<Vec<MTag>> = vec![Vec::new(); n];
                    if n > 0 {
                        let ntags = if kn.tag_heavy && src.chance(1, 12) {
                            // A burst of tags, many of them sharing a sample:
                            // enough for a sort to leave its small-slice path
                            // (commit order among equal positions must survive).
                            ctx.count("tag_burst_over_20_in_one_commit");
                            src.range(21, 40)
                        } else if kn.tag_heavy {
                            *src.pick(&[0usize, 1, 1, 2, 3, 5])
                        } else if src.chance(1, 4) {
                            1
                        } else {
                            0
                        };
                        let (_, wpos, _) = ring.positions();
                        for _ in 0..ntags {
                            let pos = match src.below(6) {
                                0 => 0,
                                1 => n - 1,
                                2 => {
                                    // last sample before the wrap / first after
                                    let to_wrap = cap - wpos;
                                    if to_wrap >= 1 && to_wrap - 1 < n { to_wrap - 1 } else { n - 1 }
                                }
                                3 => {
                                    let to_wrap = cap - wpos;
                                    if to_wrap < n { to_wrap } else { 0 }
                                }
                                _ => src.below(n),
                            };
                            let (k, v) = gen_tag(src, &mut serial);
                            if wpos + pos == cap - 1 {
                                ctx.count("tag_on_last_before_wrap");
                            }
                            if wpos + pos == cap {
                                ctx.count("tag_on_first_after_wrap");
                            }
                            tags.push(Tag::new(pos, k.clone(), v.clone()));
                            per[pos].push((k, v));
                        }
                    }
                    if ntags_many(&per) {
                        ctx.count("several_tags_on_one_sample");
                    }
                    // Blocks hand over the tags of their whole input window and
                    // commit what fitted: entries beyond the committed samples
                    // belong to no sample (never to be reported), and wherever
                    // they sit in the list they must not affect the others.
                    if src.chance(1, 6) {
                        for _ in 0..src.range(1, 2) {
                            let pos = n + src.below(4);
                            let at = src.below(tags.len() + 1);
                            let (k, v) = gen_tag(src, &mut serial);
                            tags.insert(at, Tag::new(pos, k, v));
                        }
                        ctx.count("tag_beyond_the_commit_in_the_list");
                    }
                    {
                        let (_, wpos, _) = ring.positions();
                        if n > 0 && wpos + n > cap {
                            ctx.count("commit_across_wrap");
                        }
                    }
                    let r = catch(|| w.produce(n, &tags));
                    if let Err(p) = r {
                        viol!("C01", "valid-commit-refused", "op {opi}: produce({n}) within a {free}-sample window panicked: {}", p.msg);
                    }
                    for (i, t) in per.into_iter().enumerate() {
                        model.push_back((T::from_counter(first + i as u64), t));
                    }
                    if n == 0 {
                        ctx.count("commit_zero");
                    }
                    if sample_ops.len() < 12 {
                        sample_ops.push(format!("write {k} commit {n} tags {}", tags.len()));
                    }
                }
                // read + verify + consume m
                1 | 2 | 6 => {
                    let (r, tags) = match ring.read_buf() {
                        Ok(x) => x,
                        Err(e) => viol!(prop, "read_buf-err", "read_buf failed: {e}"),
                    };
                    if let Err(v) = verify_read::<T>(prop, opi, &r, &tags, &model, &mut data_ok) {
                        return Err(v);
                    }
                    if !data_ok {
                        ctx.count("data_mismatch_left_to_C01");
                        return Ok(());
                    }
                    let m = if op == 2 {
                        None
                    } else if op == 6 {
                        Some(0)
                    } else {
                        Some(match src.below(6) {
                            0 => used,
                            1 => used.min(1),
                            2 => used.saturating_sub(1),
                            3 => {
                                // exactly to the wrap
                                (cap - rpos).min(used)
                            }
                            4 => src.below(used.min(16) + 1),
                            _ => src.below(used + 1),
                        })
                    };
                    match m {
                        None => {
                            drop(r);
                            ctx.count("read_window_dropped");
                        }
                        Some(m) => {
                            if m == 0 {
                                ctx.count("consume_zero");
                                if model.iter().any(|x| !x.1.is_empty()) {
                                    ctx.count("consume_zero_with_tags_buffered");
                                }
                            }
                            if m > 0 && m < used && model.iter().skip(m).any(|x| !x.1.is_empty()) {
                                ctx.count("partial_consume_leaves_tagged_samples");
                            }
                            if let Err(p) = catch(|| r.consume(m)) {
                                viol!("C01", "valid-consume-refused", "op {opi}: consume({m}) with {used} readable panicked: {}", p.msg);
                            }
                            for _ in 0..m {
                                model.pop_front();
                            }
                            if sample_ops.len() < 12 {
                                sample_ops.push(format!("read {used} consume {m}"));
                            }
                        }
                    }
                }
                // write window scribbled and dropped without commit
                3 => {
                    let mut w = match ring.write_buf() {
                        Ok(w) => w,
                        Err(e) => viol!(prop, "write_buf-err", "write_buf failed: {e}"),
                    };
                    let k = src.below(w.len().min(64) + 1);
                    let sl = w.slice();
                    for p in sl.iter_mut().take(k) {
                        *p = T::from_counter(0xdead_0000 + counter);
                    }
                    drop(w);
                    ctx.count("fault:window_dropped");
                }
                // queries
                4 => {
                    let f = ring.free();
                    let t = ring.total_size();
                    if t != cap {
                        viol!("C01", "capacity", "total_size()={t}, expected {cap}");
                    }
                    if f != free {
                        viol!("C01", "free-count", "op {opi}: free()={f} but capacity {cap} - readable {used} = {free}");
                    }
                }
                // refused: oversize commit / consume
                5 => {
                    let stale = src.chance(1, 3) && free >= 2;
                    let which = src.coin();
                    if stale {
                        // Two write windows taken one after the other (the
                        // handle guard allows it): a commit through the first
                        // makes the second one stale. A commit through the
                        // second that fits its own length but no longer the
                        // ring must be refused like any other over-sized one.
                        let w1 = ring.write_buf().map_err(|e| Violation::new(format!("{prop}:write_buf-err"), e))?;
                        let w2 = ring.write_buf().map_err(|e| Violation::new(format!("{prop}:write_buf-err"), e))?;
                        let a = src.range(1, free - 1);
                        let b = (free - a) + 1 + src.below(a);
                        ctx.count("fault:oversize_commit");
                        ctx.count("oversize_commit_through_a_stale_window");
                        if let Err(p) = catch(|| w1.produce(a, &[])) {
                            viol!("C01", "valid-commit-refused", "op {opi}: produce({a}) within a {free}-sample window panicked: {}", p.msg);
                        }
                        let r = catch(|| w2.produce(b, &[]));
                        if r.is_ok() {
                            viol!("C01", "oversize-commit-accepted", "op {opi}: produce({b}) through a write window taken before another commit of {a} was accepted although only {} of {cap} were free by then", free - a);
                        }
                    } else if which {
                        let w = ring.write_buf().map_err(|e| Violation::new(format!("{prop}:write_buf-err"), e))?;
                        let n = w.len() + 1 + src.below(3);
                        ctx.count("fault:oversize_commit");
                        let r = catch(|| w.produce(n, &[]));
                        if r.is_ok() {
                            viol!("C01", "oversize-commit-accepted", "op {opi}: produce({n}) accepted although only {free} free of {cap}");
                        }
                    } else {
                        let (r, _) = ring.read_buf().map_err(|e| Violation::new(format!("{prop}:read_buf-err"), e))?;
                        let m = r.len() + 1 + src.below(3);
                        ctx.count("fault:oversize_consume");
                        let rr = catch(|| r.consume(m));
                        if rr.is_ok() {
                            viol!("C01", "oversize-consume-accepted", "op {opi}: consume({m}) accepted although only {used} readable");
                        }
                    }
                    // The state mutex is poisoned by design: terminal.
                    ctx.nontrivial = true;
                    break;
                }
                // both windows live; writing must not disturb the read window
                7 => {
                    let (r, tags) = ring.read_buf().map_err(|e| Violation::new(format!("{prop}:read_buf-err"), e))?;
                    let mut w = ring.write_buf().map_err(|e| Violation::new(format!("{prop}:write_buf-err"), e))?;
                    let k = src.below(w.len() + 1);
                    for p in w.slice().iter_mut().take(k) {
                        *p = T::from_counter(0xbeef_0000 + counter);
                    }
                    if let Err(v) = verify_read::<T>(prop, opi, &r, &tags, &model, &mut data_ok) {
                        return Err(v);
                    }
                    if !data_ok {
                        return Ok(());
                    }
                    drop(w);
                    drop(r);
                    ctx.count("both_windows_live");
                    if rpos + used > cap || (used < cap && k > 0) {
                        ctx.count("scribble_while_reading");
                    }
                }
                // write window held open across a read + consume, then committed
                9 => {
                    let mut w = ring.write_buf().map_err(|e| Violation::new(format!("{prop}:write_buf-err"), e))?;
                    if w.len() != free {
                        viol!("C01", "write-window-size", "op {opi}: write window has {} samples, model says free={} (cap {cap}, used {used})", w.len(), free);
                    }
                    let k = match src.below(4) {
                        0 => free,
                        1 => free.min(1),
                        2 => src.below(free.min(16) + 1),
                        _ => src.below(free + 1),
                    };
                    let n = if src.chance(1, 3) { src.below(k + 1) } else { k };
                    let first = counter;
                    for (i, p) in w.slice().iter_mut().take(k).enumerate() {
                        *p = T::from_counter(first + i as u64);
                    }
                    counter += k as u64;
                    // Reader side, while the write window is still open.
                    let (r, rtags) = ring.read_buf().map_err(|e| Violation::new(format!("{prop}:read_buf-err"), e))?;
                    verify_read::<T>(prop, opi, &r, &rtags, &model, &mut data_ok)?;
                    if !data_ok {
                        return Ok(());
                    }
                    let m = match src.below(4) {
                        0 | 1 => used,
                        2 => used.saturating_sub(1),
                        _ => src.below(used + 1),
                    };
                    if let Err(p) = catch(|| r.consume(m)) {
                        viol!("C01", "valid-consume-refused", "op {opi}: consume({m}) with {used} readable (write window open) panicked: {}", p.msg);
                    }
                    for _ in 0..m {
                        model.pop_front();
                    }
                    ctx.count("consume_while_write_window_open");
                    if m == used && used > 0 {
                        ctx.count("drain_while_write_window_open");
                    }
                    let mut tags: Vec<Tag> = Vec::new();
                    let mut per: Vec<Vec<MTag>> = vec![Vec::new(); n];
                    if n > 0 && kn.tag_heavy && src.coin() {
                        let pos = if src.coin() { 0 } else { n - 1 };
                        let (k, v) = gen_tag(src, &mut serial);
                        tags.push(Tag::new(pos, k.clone(), v.clone()));
                        per[pos].push((k, v));
                    }
                    if let Err(p) = catch(|| w.produce(n, &tags)) {
                        viol!("C01", "valid-commit-refused", "op {opi}: produce({n}) within a {free}-sample window (after a consume of {m}) panicked: {}", p.msg);
                    }
                    for (i, t) in per.into_iter().enumerate() {
                        model.push_back((T::from_counter(first + i as u64), t));
                    }
                    if sample_ops.len() < 12 {
                        sample_ops.push(format!("hold-write {k}: consume {m}, commit {n}"));
                    }
                }
                // read window held open across a write + commit, then consumed
                10 => {
                    let (r, rtags) = ring.read_buf().map_err(|e| Violation::new(format!("{prop}:read_buf-err"), e))?;
                    verify_read::<T>(prop, opi, &r, &rtags, &model, &mut data_ok)?;
                    if !data_ok {
                        return Ok(());
                    }
                    let mut w = ring.write_buf().map_err(|e| Violation::new(format!("{prop}:write_buf-err"), e))?;
                    if w.len() != free {
                        viol!("C01", "write-window-size", "op {opi}: write window has {} samples, model says free={} (cap {cap}, used {used})", w.len(), free);
                    }
                    let n = match src.below(4) {
                        0 => free,
                        1 => free.min(1),
                        2 => src.below(free.min(16) + 1),
                        _ => src.below(free + 1),
                    };
                    let first = counter;
                    for (i, p) in w.slice().iter_mut().take(n).enumerate() {
                        *p = T::from_counter(first + i as u64);
                    }
                    counter += n as u64;
                    let mut tags: Vec<Tag> = Vec::new();
                    let mut per: Vec<Vec<MTag>> = vec![Vec::new(); n];
                    if n > 0 && kn.tag_heavy && src.coin() {
                        let pos = if src.coin() { 0 } else { n - 1 };
                        let (k, v) = gen_tag(src, &mut serial);
                        tags.push(Tag::new(pos, k.clone(), v.clone()));
                        per[pos].push((k, v));
                    }
                    if let Err(p) = catch(|| w.produce(n, &tags)) {
                        viol!("C01", "valid-commit-refused", "op {opi}: produce({n}) within a {free}-sample window (read window open) panicked: {}", p.msg);
                    }
                    // The old read window still shows exactly what it showed.
                    {
                        let sl = r.slice();
                        if sl.len() != used {
                            viol!("C01", "read-window-size", "op {opi}: held read window changed length {} -> {}", used, sl.len());
                        }
                        if check_data_prop(prop) {
                            for (i, (v, _)) in model.iter().enumerate() {
                                if sl[i] != *v {
                                    viol!("C01", "data-mismatch", "op {opi}: held read window sample {i} changed to {:?} after a commit of {n}; committed {:?} ({})", sl[i], v, T::NAME);
                                }
                            }
                        }
                    }
                    let m = match src.below(4) {
                        0 | 1 => used,
                        2 => used.min(1),
                        _ => src.below(used + 1),
                    };
                    if let Err(p) = catch(|| r.consume(m)) {
                        viol!("C01", "valid-consume-refused", "op {opi}: consume({m}) from a held window of {used} panicked: {}", p.msg);
                    }
                    for _ in 0..m {
                        model.pop_front();
                    }
                    for (i, t) in per.into_iter().enumerate() {
                        model.push_back((T::from_counter(first + i as u64), t));
                    }
                    ctx.count("commit_while_read_window_open");
                    if sample_ops.len() < 12 {
                        sample_ops.push(format!("hold-read {used}: commit {n}, consume {m}"));
                    }
                }
                // full-capacity commit then full consume
                _ => {
                    if used == 0 {
                        let mut w = ring.write_buf().map_err(|e| Violation::new(format!("{prop}:write_buf-err"), e))?;
                        if w.len() != cap {
                            viol!("C01", "write-window-size", "empty stream offers {} of {cap}", w.len());
                        }
                        let first = counter;
                        for (i, p) in w.slice().iter_mut().enumerate() {
                            *p = T::from_counter(first + i as u64);
                        }
                        counter += cap as u64;
                        let mut tags = vec![];
                        let mut lasttag = vec![];
                        if kn.tag_heavy {
                            let (k, v) = gen_tag(src, &mut serial);
                            tags.push(Tag::new(cap - 1, k.clone(), v.clone()));
                            lasttag.push((k, v));
                        }
                        if let Err(p) = catch(|| w.produce(cap, &tags)) {
                            viol!("C01", "valid-commit-refused", "full-capacity produce({cap}) panicked: {}", p.msg);
                        }
                        for i in 0..cap {
                            model.push_back((T::from_counter(first + i as u64), if i == cap - 1 { lasttag.clone() } else { vec![] }));
                        }
                        ctx.count("full_capacity_commit");
                    }
                }
            }
        }
        // Final read-back.
        if !ring_poisoned(&ring) {
            let (r, tags) = ring.read_buf().map_err(|e| Violation::new(format!("{prop}:read_buf-err"), e))?;
            verify_read::<T>(prop, nops, &r, &tags, &model, &mut data_ok)?;
        }
        ctx.nontrivial = true;
        ctx.hash.add(T::NAME.len() as u64 ^ ((size as u64) << 8) ^ ((off as u64) << 32));
        for s in &sample_ops {
            ctx.hash.add_bytes(s.as_bytes());
        }
        ctx.hash.add(counter);
        if ctx.sample.is_none() {
            ctx.sample = Some(json!({"T": T::NAME, "bytes": size, "start_offset": off, "via_new_stream": via_stream, "ops": sample_ops}));
        }
        Ok(())
    }
}

fn check_data_prop(prop: &str) -> bool {
    prop == "C01"
}

fn ntags_many(per: &[Vec<MTag>]) -> bool {
    per.iter().any(|p| p.len() > 1)
}

fn ring_poisoned<T: Elem>(ring: &Ring<T>) -> bool {
    catch(|| ring.free()).is_err()
}

fn verify_read<T: Elem>(
    prop: &str,
    opi: usize,
    r: &RB<T>,
    tags: &[Tag],
    model: &VecDeque<(T, Vec<MTag>)>,
    data_ok: &mut bool,
) -> RunResult {
    let check_data = prop == "C01";
    if r.len() != model.len() {
        if check_data {
            return Err(Violation::new(
                "C01:read-window-size",
                format!("op {opi}: read window has {} samples, {} committed and not consumed", r.len(), model.len()),
            ));
        }
        *data_ok = false;
        return Ok(());
    }
    let sl = r.slice();
    for (i, (v, _)) in model.iter().enumerate() {
        if sl[i] != *v {
            if check_data {
                return Err(Violation::new(
                    "C01:data-mismatch",
                    format!(
                        "op {opi}: read window sample {i} of {} is {:?}, committed {:?} ({})",
                        sl.len(), sl[i], v, T::NAME
                    ),
                ));
            }
            *data_ok = false;
            return Ok(());
        }
    }
    if !check_data {
        let mut exp: Vec<(usize, &str, &TagValue)> = Vec::new();
        for (i, (_, ts)) in model.iter().enumerate() {
            for (k, v) in ts {
                exp.push((i, k.as_str(), v));
            }
        }
        let got: Vec<(usize, &str, &TagValue)> = tags.iter().map(|t| (t.pos(), t.key(), t.val())).collect();
        if got != exp {
            // Classify.
            let key = if got.len() < exp.len() {
                "tags-lost"
            } else if got.len() > exp.len() {
                "tags-extra"
            } else {
                let mut a = got.clone();
                let mut b = exp.clone();
                a.sort_by(|x, y| x.partial_cmp(y).unwrap_or(std::cmp::Ordering::Equal));
                b.sort_by(|x, y| x.partial_cmp(y).unwrap_or(std::cmp::Ordering::Equal));
                if a == b { "tags-order" } else { "tags-misplaced" }
            };
            return Err(Violation::new(
                format!("C02:{key}"),
                format!(
                    "op {opi}: read window of {} samples reports tags {:?}, expected {:?}",
                    sl.len(),
                    got.iter().take(8).collect::<Vec<_>>(),
                    exp.iter().take(8).collect::<Vec<_>>()
                ),
            ));
        }
    }
    Ok(())
}

impl Check for BufCheck {
    fn id(&self) -> &'static str {
        self.prop
    }
    fn rule(&self) -> String {
        "one run = one seeded operation history (1..60 ops: write k/commit n<=k with tags, read+verify+consume m, \
         consume(0), dropped windows, both windows live, a write window held open across a read+consume and a read window held open across a write+commit, queries, refused oversize commit/consume, full-capacity commit) \
         on a real mmap-backed Buffer<T> or new_stream() pair with seeded element type (u8,u16,u32,u64,f32,Complex,[u8;16],[u8;3],[u8;5],[u8;12]), \
         size (1,2,3,8 pages and non page multiples) and start offset; checked after every op against a deque model. \
         non-trivial = at least one op executed against a successfully created buffer or a refused construction; \
         distinct = hash of (type,size,offset,op list with sizes)".into()
    }
    fn assumptions(&self) -> Vec<String> {
        vec![
            "single-threaded histories (two-thread interleavings are C03)".into(),
            "a tag whose position is >= n in produce(n, tags) belongs to no committed sample: it must never be reported, and must not affect the tags of the committed samples (blocks pass their whole input window's tags with a partial commit)".into(),
            "start offsets are set with the feature-gated verif_preroll hook on an empty buffer".into(),
        ]
    }
    fn real_vs_stub(&self) -> Value {
        json!({"real": ["circular_buffer::Buffer/Circ (mmap double mapping)", "stream::new_stream/ReadStream/WriteStream", "tempfile"], "simulated": ["wait time-outs (Solo virtual clock; not exercised here)"], "stub": []})
    }
    fn budget(&self, tier: Tier) -> Budget {
        match tier {
            Tier::Quick => Budget { runs: 100000, max_secs: 40.0 },
            Tier::Thorough => Budget { runs: 20_000_000, max_secs: 600.0 },
        }
    }
    fn required(&self, _tier: Tier) -> Vec<&'static str> {
        if self.prop == "C01" {
            vec!["commit_across_wrap", "full_at_nonzero_offset", "readable_region_spans_wrap", "fault:oversize_commit", "fault:oversize_consume", "bad_size_rejected", "full_capacity_commit", "both_windows_live", "drain_while_write_window_open", "commit_while_read_window_open"]
        } else {
            vec!["tag_on_last_before_wrap", "tag_on_first_after_wrap", "consume_zero_with_tags_buffered", "partial_consume_leaves_tagged_samples", "several_tags_on_one_sample", "commit_across_wrap"]
        }
    }
    fn run(&self, src: &mut Src, ctx: &mut RunCtx) -> RunResult {
        let kn = Knobs {
            tag_heavy: self.prop == "C02",
            max_ops: if crate::engine::deep() { *src.pick(&[60usize, 60, 200, 600]) } else { 60 },
        };
        let solo = Solo::new();
        let r = solo.with(|| match src.below(10) {
            0 => self.scenario::<u8>(src, ctx, &kn),
            1 => self.scenario::<u16>(src, ctx, &kn),
            2 => self.scenario::<u32>(src, ctx, &kn),
            3 => self.scenario::<u64>(src, ctx, &kn),
            4 => self.scenario::<f32>(src, ctx, &kn),
            5 => self.scenario::<Complex>(src, ctx, &kn),
            6 => self.scenario::<[u8; 16]>(src, ctx, &kn),
            7 => self.scenario::<[u8; 3]>(src, ctx, &kn),
            8 => self.scenario::<[u8; 5]>(src, ctx, &kn),
            _ => self.scenario::<[u8; 12]>(src, ctx, &kn),
        });
        ctx.sim_ns += solo.state().clock_ns;
        r
    }
}
