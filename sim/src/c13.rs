//! C13: HDLC deframer against a transmitter model and a spec-level reference
//! deframer, over a bit channel with noise and bit-flip faults, delivered in
//! seeded chunkings through the rig.

use rustradio::blocks::HdlcDeframer;
use serde_json::{Value, json};

use crate::engine::{Budget, Check, RunCtx, RunResult, Tier, Violation};
use crate::hdlc::*;
use crate::rig::*;
use crate::rt::Solo;
use crate::src::Src;

pub struct HdlcCheck;

#[derive(Debug, Clone)]
pub struct Candidate {
    pub bytes: Vec<u8>,
    pub crc_ok: bool,
    /// Bit positions of the content: after the opening flag, up to the closing flag.
    pub span: (usize, usize),
}

/// Spec-level reference: every flag-delimited, byte-aligned candidate of a
/// bit stream, de-stuffed, with its FCS verdict. Flags are found on the raw
/// stream; content with 6 or more consecutive ones is an abort.
pub fn ref_candidates(bits: &[u8]) -> Vec<Candidate> {
    let mut flags: Vec<usize> = Vec::new(); // start index of each flag
    let mut i = 0;
    while i + 8 <= bits.len() {
        if bits[i..i + 8] == FLAG {
            flags.push(i);
            i += 8;
        } else {
            i += 1;
        }
    }
    let mut out = Vec::new();
    for w in flags.windows(2) {
        let (a, b) = (w[0] + 8, w[1]);
        if b <= a {
            continue;
        }
        let raw = &bits[a..b];
        // de-stuff
        let mut content = Vec::with_capacity(raw.len());
        let mut ones = 0;
        let mut abort = false;
        for &x in raw {
            if x == 1 {
                ones += 1;
                if ones >= 6 {
                    abort = true;
                    break;
                }
                content.push(1);
            } else {
                if ones == 5 {
                    // stuffed zero: drop
                } else {
                    content.push(0);
                }
                ones = 0;
            }
        }
        if abort || content.is_empty() || content.len() % 8 != 0 {
            continue;
        }
        let bytes: Vec<u8> = content.chunks(8).map(|c| c.iter().enumerate().fold(0u8, |acc, (k, b)| acc | (b << k))).collect();
        let crc_ok = bytes.len() >= 2 && {
            let (d, f) = bytes.split_at(bytes.len() - 2);
            crc16_x25(d) == u16::from_le_bytes([f[0], f[1]])
        };
        out.push(Candidate { bytes, crc_ok, span: (a, b) });
    }
    out
}

#[derive(Debug, Clone, Copy, PartialEq)]
enum Class {
    Must,
    May,
    MustNot,
}

struct TxFrame {
    payload: Vec<u8>,
    flips: usize,
    class: Class,
    /// Start index of the flag that opens this frame (its own last opening
    /// flag, or the previous frame's closing flag when shared) and of its
    /// closing flag.
    open_pos: usize,
    close_pos: usize,
}

/// A flag pattern in the raw stream that overlaps, without coinciding with,
/// the flag at `pos`: which of the two a receiver honours is not specified
/// (e.g. "0111111" + "01111110", or flags sharing a zero).
fn overlap_hazard(bits: &[u8], pos: usize) -> bool {
    let lo = pos.saturating_sub(7);
    let hi = (pos + 7).min(bits.len().saturating_sub(8));
    (lo..=hi).any(|q| q != pos && q + 8 <= bits.len() && bits[q..q + 8] == FLAG)
}

fn gen_payload(src: &mut Src, len: usize, serial: u8) -> Vec<u8> {
    let mut p: Vec<u8> = match src.below(5) {
        0 => vec![0xff; len],
        1 => vec![0x7e; len],
        2 => vec![0x3f; len],
        3 => (0..len).map(|i| [0xff, 0x7e, 0x3f, 0xfc, 0x1f, 0xf8][i % 6]).collect(),
        _ => (0..len).map(|_| src.below(256) as u8).collect(),
    };
    // Make payloads distinguishable so each delivery is attributable.
    if len >= 1 {
        p[0] = serial;
    }
    if len >= 2 {
        p[len - 1] = serial.wrapping_mul(37).wrapping_add(11);
    }
    p
}

impl Check for HdlcCheck {
    fn id(&self) -> &'static str {
        "C13"
    }
    fn level(&self) -> &'static str {
        "fault_enumeration"
    }
    fn rule(&self) -> String {
        "one run = a transmitter model (payloads of 0..max+2 bytes, random and stuffing-heavy 0xFF/0x7E/0x3F contents, CRC-16/X.25, LSB-first, bit stuffing, 1-3 opening flags, shared or separate flags between 1-4 frames) feeding the real HdlcDeframer through the rig in a seeded chunking, with channel faults: random noise prefix, adversarial prefixes ending in a partial flag, and 1 or 2 flipped bits inside a chosen frame; seeded min/max size (incl. 0,1,2), checksum on/off, single-bit fixing on/off. \
         Oracle: every uncorrupted frame whose size is inside the bounds under both readings of 'size' (with/without FCS) must come out once, in order; a frame with flipped bits and checksum on must not come out (or, with fixing on and one flip, only as the original); nothing may come out that the spec-level reference deframer classifies as FCS-invalid; on a clean channel nothing else at all; delivered frames respect the bounds under at least one reading. \
         non-trivial = at least one frame transmitted and the stream split over several work() calls; distinct = hash of the decision list".into()
    }
    fn assumptions(&self) -> Vec<String> {
        vec![
            "bit inputs stay in {0,1} (documented precondition)".into(),
            "size bounds are ambiguous in the documentation: boundary sizes are MAY".into(),
            "frames born from noise that verify under the reference deframer are MAY; unexplained frames in noisy runs are counted, not alarmed (1 in 65536 random candidates verifies by chance)".into(),
            "a frame with a single opening flag directly preceded by noise ending in a partial flag is MAY (overlapping-flag ambiguity)".into(),
        ]
    }
    fn real_vs_stub(&self) -> Value {
        json!({"real": ["HdlcDeframer (state machine, CRC, bit fixing) on real streams"], "simulated": ["transmitter, bit channel with noise/flip faults, delivery schedule"], "stub": []})
    }
    fn budget(&self, tier: Tier) -> Budget {
        match tier {
            Tier::Quick => Budget { runs: 200000, max_secs: 40.0 },
            Tier::Thorough => Budget { runs: 5_000_000, max_secs: 900.0 },
        }
    }
    fn required(&self, _tier: Tier) -> Vec<&'static str> {
        vec!["fault:bit_flip", "fault:noise_prefix", "fault:adversarial_prefix", "must_frame_delivered", "flipped_frame_rejected", "frame_straddles_calls", "shared_flag", "short_frame_below_crc", "repaired_by_fixing"]
    }
    fn run(&self, src: &mut Src, ctx: &mut RunCtx) -> RunResult {
        let min_size = *src.pick(&[0usize, 1, 2, 3, 4, 10]);
        let max_size = *src.pick(&[8usize, 20, 40, 60, 300]);
        let checksum = !src.chance(1, 5);
        let fix = checksum && src.chance(1, 3);
        let nframes = src.range(1, if crate::engine::deep() { 10 } else { 4 });
        let noise_kind = src.below(5); // 0,1 none; 2 random; 3 adversarial; 4 random+flags
        let flip_frame = if src.chance(1, 3) { Some(src.below(nframes)) } else { None };
        let nflips = if flip_frame.is_some() { src.range(1, 2) } else { 0 };
        let mut bits: Vec<u8> = Vec::new();
        let mut clean = true;
        let mut adversarial = false;
        match noise_kind {
            2 => {
                let n = src.range(1, 120);
                bits.extend((0..n).map(|_| src.below(2) as u8));
                clean = false;
                ctx.count("fault:noise_prefix");
            }
            3 => {
                let n = src.below(30);
                bits.extend((0..n).map(|_| src.below(2) as u8));
                bits.extend(if src.coin() { vec![0u8, 1, 1, 1, 1, 1, 1] } else { vec![0u8, 1, 1, 1, 1, 1] });
                clean = false;
                adversarial = true;
                ctx.count("fault:adversarial_prefix");
            }
            4 => {
                let n = src.range(1, 60);
                bits.extend((0..n).map(|_| src.below(2) as u8));
                bits.extend(FLAG);
                let n = src.range(1, 40);
                bits.extend((0..n).map(|_| src.below(2) as u8));
                clean = false;
                ctx.count("fault:noise_prefix");
            }
            _ => {}
        }
        let mut tx: Vec<TxFrame> = Vec::new();
        let mut prev_shared = false;
        for k in 0..nframes {
            let len = match src.below(8) {
                0 => 0,
                1 => 1,
                2 => 2,
                3 => max_size,
                4 => max_size + 1,
                5 => max_size + 2,
                6 => max_size.saturating_sub(2),
                _ => src.range(1, max_size.min(60)),
            };
            let payload = gen_payload(src, len, k as u8 + 1);
            if len < 2 && checksum {
                ctx.count("short_frame_below_crc");
            }
            let opening = if prev_shared { 0 } else { src.range(1, 3) };
            let first_frame_single_flag = k == 0 && opening == 1;
            for _ in 0..opening {
                bits.extend(FLAG);
            }
            let body_start = bits.len();
            let open_pos = body_start - 8;
            bits.extend(body_bits(&payload, checksum));
            let body_end = bits.len();
            let close_pos = body_end;
            bits.extend(FLAG);
            // Flip faults inside this frame's body.
            let mut flips = 0;
            if flip_frame == Some(k) && body_end > body_start {
                let mut used = Vec::new();
                for _ in 0..nflips {
                    let p = body_start + src.below(body_end - body_start);
                    if !used.contains(&p) {
                        bits[p] ^= 1;
                        used.push(p);
                        flips += 1;
                        ctx.count("fault:bit_flip");
                    }
                }
                clean = false;
            }
            // Size readings: payload alone, or payload + FCS.
            let wire = len + if checksum { 2 } else { 0 };
            let inside_both = len >= min_size && wire >= min_size && wire <= max_size && len <= max_size;
            let outside_both = (wire < min_size && len < min_size) || (len > max_size && wire > max_size);
            let mut class = if flips > 0 {
                if checksum {
                    // "Rejected, or repaired to the original when single-bit
                    // fixing is enabled": with fixing on, the original coming
                    // out is acceptable; anything else for this frame is not.
                    if fix { Class::May } else { Class::MustNot }
                } else {
                    // Without checksum a flipped frame comes out corrupted or not at all.
                    Class::MustNot
                }
            } else if outside_both {
                Class::MustNot
            } else if inside_both {
                Class::Must
            } else {
                Class::May
            };
            // A frame too short to carry an FCS cannot be valid with checksum on.
            if checksum && flips == 0 && wire < 2 {
                class = Class::MustNot;
            }
            let _ = (adversarial, first_frame_single_flag);
            // Without a checksum an empty payload cannot be told apart from
            // idle fill between adjacent flags: never a MUST there. With the
            // checksum on it is flag, sixteen FCS bits, flag: a frame like any
            // other.
            if len == 0 && class == Class::Must && !checksum {
                class = Class::May;
            }
            tx.push(TxFrame { payload, flips, class, open_pos, close_pos });
            // Separate or shared flag before the next frame; idle gap sometimes.
            prev_shared = src.chance(1, 3);
            if prev_shared {
                ctx.count("shared_flag");
            } else if src.chance(1, 3) {
                let n = src.below(12);
                // idle: zeros can't form flags
                bits.extend(std::iter::repeat_n(0u8, n));
            }
        }
        if src.chance(1, 4) {
            let n = src.below(40);
            bits.extend((0..n).map(|_| src.below(2) as u8));
            clean = clean && n == 0;
        }
        // Delimiters overlapped by another flag pattern (noise tails, flips
        // next to a flag): counted; see below.
        for t in tx.iter_mut() {
            if t.class == Class::Must && (overlap_hazard(&bits, t.open_pos) || overlap_hazard(&bits, t.close_pos)) {
                // Two flags sharing a zero (the only way flag patterns can
                // overlap) are two flags: the frame stays a MUST. (It was MAY
                // while the deframer's flag hunt lost such frames; repaired.)
                ctx.count("delimiter_shares_a_zero_with_another_flag");
            }
        }
        ctx.ev(|| format!("C13 min {min_size} max {max_size} checksum {checksum} fix {fix} frames {:?} noise {noise_kind} bits {}", tx.iter().map(|t| (t.payload.len(), t.flips, t.class)).collect::<Vec<_>>(), bits.len()));
        if ctx.sample.is_none() {
            ctx.sample = Some(json!({"min_size": min_size, "max_size": max_size, "checksum": checksum, "fix_bits": fix, "frames": tx.iter().map(|t| json!({"len": t.payload.len(), "flips": t.flips, "class": format!("{:?}", t.class)})).collect::<Vec<_>>(), "noise": noise_kind, "bits": bits.len()}));
        }
        ctx.ev(|| format!("bits {}", bits.iter().map(|b| char::from(b'0' + b)).collect::<String>()));
        ctx.ev(|| format!("delimiters {:?}", tx.iter().map(|t| (t.open_pos, t.close_pos)).collect::<Vec<_>>()));
        let candidates = ref_candidates(&bits);
        let solo = Solo::new();
        let mut findings: Vec<Finding> = Vec::new();
        let mut stats = RigStats::default();
        let small = *src.pick(&[4096usize, 4096, 8192]);
        let mut complete = false;
        let got: Vec<Vec<u8>> = solo.with(|| {
            rustradio::verif::set_stream_size(small);
            let (p, r) = StreamIn::new(bits.clone(), vec![]);
            let (mut blk, o) = HdlcDeframer::new(r, min_size, max_size);
            rustradio::verif::set_stream_size(0);
            blk.set_checksum(checksum);
            blk.set_fix_bits(fix);
            let mut c = Case::new("HdlcDeframer", format!("min {min_size} max {max_size} checksum {checksum} fix {fix}"), Box::new(blk));
            let off = src.below(p.capacity());
            p.preroll(off);
            c.ins = vec![p];
            c.outs = vec![NcOut::new(o, ser_vec::<u8>)];
            let opts = RigOpts { check_retire: false, probe_waits: false, max_actions: 20_000 };
            complete = run_drip(&mut c, &solo, src, ctx, &opts, None, &mut findings, &mut stats);
            c.out_nc::<Vec<u8>>(0).got.clone()
        });
        if stats.work_calls > 1 {
            ctx.nontrivial = true;
            ctx.count("frame_straddles_calls");
        }
        for v in &src.log {
            ctx.hash.add(*v);
        }
        if let Some(f) = findings.iter().find(|f| f.key.contains("panic") || f.key.ends_with(":err")) {
            return ctx.tolerate(Violation::new(f.key.replace("C08:", "C13:"), f.msg.clone()));
        }
        // Oracle: is there an order-preserving explanation of the output list?
        // Each output is explained by (a) a transmitted frame that may be
        // delivered, in order, without skipping a MUST frame; (b) a candidate
        // of the reference deframer whose FCS verifies; (c) on a noisy channel
        // only, nothing - but then it must not equal any transmitted payload.
        let outs: Vec<&Vec<u8>> = got.iter().filter(|o| !(o.is_empty() && min_size == 0 && !checksum)).collect();
        ctx.add("empty_frame_with_min_size_0", (got.len() - outs.len()) as u64);
        for (oi, o) in outs.iter().enumerate() {
            let l = o.len();
            let wire = l + if checksum { 2 } else { 0 };
            if (wire < min_size && l < min_size) || (l > max_size && wire > max_size) {
                return ctx.tolerate(Violation::new("C13:size-bounds", format!("delivered frame {oi} has {l} bytes (+FCS {wire}) with min_size {min_size} max_size {max_size}")));
            }
        }
        let cand_ok = |o: &Vec<u8>| -> Option<bool> {
            // Some(true): reference candidate with good FCS; Some(false): only with bad FCS.
            let mut found = None;
            for c in &candidates {
                let body = if checksum && c.bytes.len() >= 2 { &c.bytes[..c.bytes.len() - 2] } else { &c.bytes[..] };
                if body == &o[..] {
                    if c.crc_ok || !checksum {
                        return Some(true);
                    }
                    found = Some(false);
                }
            }
            found
        };
        let is_tx_payload = |o: &Vec<u8>| tx.iter().any(|t| t.payload == *o);
        let explain = |require_must: bool| -> Result<(), usize> {
            // reach[i][j]: first i outputs explained with frames < j passed.
            let m = outs.len();
            let n = tx.len();
            let mut reach = vec![vec![false; n + 1]; m + 1];
            reach[0][0] = true;
            let mut best_i = 0;
            for i in 0..=m {
                for j in 0..=n {
                    if !reach[i][j] {
                        continue;
                    }
                    best_i = best_i.max(i);
                    if i == m {
                        continue;
                    }
                    let o = outs[i];
                    // (a)
                    for j2 in j..n {
                        if tx[j2].payload == *o && tx[j2].class != Class::MustNot {
                            reach[i + 1][j2 + 1] = true;
                        }
                        if require_must && tx[j2].class == Class::Must {
                            break; // cannot skip a MUST frame
                        }
                    }
                    // (b), (c)
                    let by_ref = cand_ok(o) == Some(true);
                    let lenient = !clean && !is_tx_payload(o) && cand_ok(o).is_none();
                    if by_ref || lenient {
                        reach[i + 1][j] = true;
                    }
                }
            }
            for j in 0..=n {
                if reach[m][j] && (!require_must || tx[j..].iter().all(|t| t.class != Class::Must)) {
                    return Ok(());
                }
            }
            Err(best_i)
        };
        // Invalid FCS delivered: an output that only exists as a bad-FCS candidate.
        for (oi, o) in outs.iter().enumerate() {
            if checksum && cand_ok(o) == Some(false) && !tx.iter().any(|t| t.payload == **o && t.class != Class::MustNot) {
                return ctx.tolerate(Violation::new("C13:invalid-fcs-delivered", format!("output {oi} ({} bytes) is a frame whose FCS does not verify", o.len())));
            }
        }
        // Wrong repair: with fixing on, an output that was never transmitted and
        // is within two bits of a frame whose FCS fails is a frame "repaired"
        // into something else.
        if fix {
            for (oi, o) in outs.iter().enumerate() {
                if is_tx_payload(o) || cand_ok(o) == Some(true) {
                    continue;
                }
                for c in &candidates {
                    if c.crc_ok || c.bytes.len() < 2 || c.bytes.len() - 2 != o.len() {
                        continue;
                    }
                    let d: u32 = c.bytes[..o.len()].iter().zip(o.iter()).map(|(a, b)| (a ^ b).count_ones()).sum();
                    // A fragment: the failing frame is not one of the transmitted
                    // frames with bit errors, but a piece of one that a flipped bit
                    // cut off by creating a flag. Any such piece has about a
                    // (bits / 65536) chance of being one bit away from a valid
                    // FCS: inherent to single-bit fixing over CRC-16, kept apart
                    // from a mis-repair of a whole frame.
                    let fragment = !tx.iter().any(|t| t.payload.len() + 2 == c.bytes.len());
                    // Not a piece of anything transmitted at all: channel noise
                    // between two flag patterns (the noise generator plants
                    // flags), one bit away from a valid FCS. Same mechanism,
                    // different history; kept apart as well.
                    let from_noise = !tx.iter().any(|t| c.span.0 < t.close_pos && t.open_pos + 8 < c.span.1);
                    if (1..=2).contains(&d) && from_noise {
                        ctx.tolerate(Violation::new(
                            "C13:noise-miscorrected",
                            format!("output {oi} ({} bytes) was never transmitted: single-bit fixing turned {} flag-delimited noise bits (FCS failing) into a frame with a matching FCS", o.len(), c.span.1 - c.span.0),
                        ))?;
                        continue;
                    }
                    if (1..=2).contains(&d) && fragment {
                        ctx.tolerate(Violation::new(
                            "C13:fragment-miscorrected",
                            format!("output {oi} ({} bytes) was never transmitted: a flipped bit created a flag inside a frame and single-bit fixing turned the cut-off piece (FCS failing) into a frame with a matching FCS", o.len()),
                        ))?;
                        continue;
                    }
                    if d >= 1 && d <= 2 {
                        return ctx.tolerate(Violation::new(
                            "C13:wrong-repair",
                            format!("output {oi} ({} bytes) was never transmitted; it differs in {d} bit(s) from a received frame whose FCS fails: bit fixing produced a different frame instead of the original or nothing", o.len()),
                        ));
                    }
                }
            }
        }
        match explain(complete) {
            Ok(()) => {}
            Err(_) => {
                return match explain(false) {
                    Ok(()) => {
                        let lost: Vec<String> = tx.iter().enumerate().filter(|(_, t)| t.class == Class::Must && !outs.iter().any(|o| **o == t.payload)).map(|(j, t)| format!("frame {j} ({} bytes)", t.payload.len())).collect();
                        ctx.tolerate(Violation::new("C13:valid-frame-lost", format!("uncorrupted in-bounds frame(s) not delivered (or not in order): {lost:?}; {} frames came out of {} transmitted", outs.len(), tx.len())))
                    }
                    Err(i) => {
                        let o = outs[i.min(outs.len().saturating_sub(1))];
                        if let Some((j, t)) = tx.iter().enumerate().find(|(_, t)| t.payload == *o && t.class == Class::MustNot) {
                            ctx.tolerate(Violation::new(
                                if t.flips > 0 { "C13:corrupted-frame-delivered" } else { "C13:out-of-bounds-frame-delivered" },
                                format!("frame {j} ({} bytes, {} flipped bits) must not be delivered but came out as output {i}", t.payload.len(), t.flips),
                            ))
                        } else if is_tx_payload(o) {
                            ctx.tolerate(Violation::new("C13:duplicate-or-reordered", format!("output {i} repeats or reorders a transmitted frame ({} bytes)", o.len())))
                        } else {
                            ctx.tolerate(Violation::new("C13:untransmitted-frame", format!("clean channel, yet output {i} ({} bytes: {:02x?}) was never transmitted", o.len(), &o[..o.len().min(12)])))
                        }
                    }
                };
            }
        }
        // Reach probes.
        for t in &tx {
            let delivered = outs.iter().any(|o| **o == t.payload);
            match (t.class, delivered) {
                (Class::Must, true) => ctx.count("must_frame_delivered"),
                (Class::May, true) if t.flips == 1 => ctx.count("repaired_by_fixing"),
                (Class::MustNot, false) if t.flips > 0 => ctx.count("flipped_frame_rejected"),
                _ => {}
            }
        }
        Ok(())
    }
}
