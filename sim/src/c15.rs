//! C15: hostile content. Corruption faults applied to valid artefacts (AU
//! headers, SigMF metadata and archives), degenerate bursts/packets
//! (enumerated exhaustively for small sizes), NaN/infinity sample streams and
//! arbitrary bit streams, delivered through the rig. Outcome must be Ok or
//! Err: no panic, no hang, window accounting intact.

use rustradio::block::Block;
use rustradio::blocks::*;
use rustradio::stream::TagValue;
use rustradio::window::WindowType;
use rustradio::{Complex, Float};
use serde_json::{Value, json};

use crate::blocks::au_bytes;
use crate::c16::{sigmf_archive, sigmf_meta};
use crate::datagen::*;
use crate::engine::{Budget, Check, RunCtx, RunResult, Tier, Violation, catch};
use crate::rig::*;
use crate::rt::Solo;
use crate::src::Src;

pub struct HostileCheck;

const ALPHABET: [f32; 5] = [-1.0, 0.0, 1.0, f32::NAN, f32::INFINITY];
const MAX_ENUM_LEN: usize = 6;

fn n_packets() -> u64 {
    (0..=MAX_ENUM_LEN as u32).map(|k| 5u64.pow(k)).sum()
}
const AU_OFFSETS: u64 = 65;
const AU_ENCODINGS: [u32; 6] = [0, 1, 2, 3, 4, 27];
const AU_CHANNELS: [u32; 3] = [0, 1, 2];
fn n_au() -> u64 {
    AU_OFFSETS * AU_ENCODINGS.len() as u64 * AU_CHANNELS.len() as u64
}

fn decode_packet(mut idx: u64) -> Vec<f32> {
    // idx enumerates all sequences of length 0..=MAX_ENUM_LEN over ALPHABET.
    let mut len = 0;
    loop {
        let n = 5u64.pow(len as u32);
        if idx < n {
            break;
        }
        idx -= n;
        len += 1;
    }
    (0..len)
        .map(|_| {
            let v = ALPHABET[(idx % 5) as usize];
            idx /= 5;
            v
        })
        .collect()
}

/// Drive a packet block over `packets`; report panics / errors / hangs.
fn run_packet_block(kind: &'static str, blk: Box<dyn Block + Send>, inp: Box<dyn InPort>, out: Box<dyn OutPort>, desc: String, solo: &Solo, ctx: &mut RunCtx) -> RunResult {
    let mut c = Case::new(kind, desc, blk);
    c.ins = vec![inp];
    c.outs = vec![out];
    c.err_ok = true;
    let n = c.ins[0].total();
    c.ins[0].feed(n);
    for _ in 0..(n + 4) {
        let st = step(&mut c, solo, false);
        ctx.steps += 1;
        match &st.verdict {
            Verdict::Panic(p) => {
                return ctx.tolerate(Violation::new(format!("C15:{kind}:panic:{}", p.site), format!("{kind} {}: work() panicked: {} at {}", c.params, p.msg, p.loc)));
            }
            Verdict::Err(_) | Verdict::Eof => break,
            _ => {}
        }
        if !st.activity && c.ins[0].backlog() == 0 {
            break;
        }
        c.outs[0].drain(usize::MAX);
    }
    if c.ins[0].backlog() != 0 {
        return ctx.tolerate(Violation::new(format!("C15:{kind}:stuck"), format!("{kind} {}: packets left unprocessed after {} calls", c.params, n + 4)));
    }
    Ok(())
}

/// Drive a stream block through the drip rig; only crashes, errors-as-panics
/// and hangs count.
fn run_stream_block(mut c: Case, solo: &Solo, src: &mut Src, ctx: &mut RunCtx) -> RunResult {
    c.err_ok = true;
    let kind = c.kind;
    let mut findings = Vec::new();
    let mut stats = RigStats::default();
    let opts = RigOpts { check_retire: false, probe_waits: false, max_actions: 8000 };
    for p in c.ins.iter() {
        if !p.is_nc() {
            let cap = p.capacity();
            p.preroll(src.below(cap));
        }
    }
    run_drip(&mut c, solo, src, ctx, &opts, None, &mut findings, &mut stats);
    for f in findings {
        if f.key.contains(":panic") {
            return ctx.tolerate(Violation::new(f.key.replacen("C08:", "C15:", 1), f.msg));
        }
        if f.key.contains("window-leak") || f.key.contains("handle-leak") {
            return ctx.tolerate(Violation::new(format!("C15:{kind}:window-accounting"), f.msg));
        }
    }
    if stats.work_calls > 0 {
        ctx.nontrivial = true;
    }
    Ok(())
}

fn hostile_f32(src: &mut Src, n: usize) -> Vec<f32> {
    let style = src.below(5);
    (0..n)
        .map(|i| match style {
            0 => *src.pick(&ALPHABET),
            1 => {
                if src.chance(1, 10) {
                    *src.pick(&[f32::NAN, f32::INFINITY, f32::NEG_INFINITY, f32::MAX, f32::MIN, 1e-40])
                } else {
                    ((i as f32) * 0.4).sin()
                }
            }
            2 => f32::from_bits(src.bits() as u32),
            3 => *src.pick(&[f32::MAX, f32::MIN, 3.0e38, -3.0e38]),
            _ => gen_f32(src, true),
        })
        .collect()
}

fn mutate_au(src: &mut Src, ctx: &mut RunCtx) -> Vec<u8> {
    let n = src.below(40);
    let samples: Vec<i16> = (0..n).map(|_| src.below(65536) as u16 as i16).collect();
    let mut b = au_bytes(44100, &samples);
    match src.below(7) {
        0 => {
            let cut = src.below(b.len() + 1);
            b.truncate(cut);
            ctx.count("fault:truncate");
        }
        1 => {
            let off = src.below(70) as u32;
            b[4..8].copy_from_slice(&off.to_be_bytes());
            ctx.count("fault:field_mutation");
        }
        2 => {
            let off = *src.pick(&[0u32, 1, 7, 8, 9, 23, 24, 0xffff_ffff, 0x8000_0000, 1 << 20]);
            b[4..8].copy_from_slice(&off.to_be_bytes());
            ctx.count("fault:field_mutation");
        }
        3 => {
            let k = src.range(1, 4);
            for _ in 0..k {
                let p = src.below(b.len());
                b[p] ^= 1 << src.below(8);
            }
            ctx.count("fault:bit_flip");
        }
        4 => {
            let l = src.below(64);
            b = (0..l).map(|_| src.below(256) as u8).collect();
            ctx.count("fault:garbage");
        }
        5 => {
            // Any of the fields size / encoding / rate / channels / annotation,
            // set to an arbitrary or to a boundary value (0 is the divisor
            // nobody expects).
            let f = src.range(2, 6) * 4;
            let v = if src.coin() { src.bits() as u32 } else { *src.pick(&[0u32, 1, 2, 3, 0xffff_ffff, 0x8000_0000, 44099, 44101]) };
            b[f..f + 4].copy_from_slice(&v.to_be_bytes());
            ctx.count("fault:field_mutation");
        }
        _ => {
            b.push(src.below(256) as u8); // odd trailing byte
            ctx.count("fault:truncate");
        }
    }
    b
}

fn au_case(bytes: Vec<u8>, desc: String) -> Case {
    let (p, r) = StreamIn::new(bytes, vec![]);
    let (blk, o) = AuDecode::new(r, 44100);
    let mut c = Case::new("AuDecode", desc, Box::new(blk));
    c.ins = vec![p];
    c.outs = vec![StreamOut::new(o)];
    c
}

impl Check for HostileCheck {
    fn id(&self) -> &'static str {
        "C15"
    }
    fn level(&self) -> &'static str {
        "fault_enumeration"
    }
    fn rule(&self) -> String {
        format!(
            "enumerated part: every burst of length 0..{MAX_ENUM_LEN} over {{-1,0,1,NaN,inf}} ({} sequences) through Midpointer and through Wpcr; every AU header with data offset 0..64 x encoding {{0,1,2,3,4,27}} x channels {{0,1,2}} ({} headers) through AuDecode. \
             seeded part: one run = one corruption fault on a valid artefact or one hostile stream, delivered through the drip-feed rig: AU streams (truncation at any byte, field mutations, bit flips, garbage), SigMF metadata (missing/mistyped fields, broken JSON) and archives (truncated, zero-length members, duplicate members, directory/symlink members, missing data), arbitrary bit streams with sync tags for the IL2P and HDLC deframers, packets for VecToStream / Midpointer / Wpcr (length 0..8 and longer), burst tags of wrong type or order for StreamToPdu, arbitrary byte streams for RtlSdrDecode, NaN/infinity/denormal/huge sample streams for SymbolSync, ZeroCrossing, FIR, FFT filter, Hilbert, quadrature demodulators, IIR, AuEncode, CMA equaliser, burst tagger. \
             Outcome must be normal output, dropped data or an Err value: no panic, no stuck packet, window accounting intact. \
             non-trivial = the block under test processed the corrupted artefact; distinct = case index / hash of the decision list",
            n_packets(),
            n_au()
        )
    }
    fn assumptions(&self) -> Vec<String> {
        vec![
            "bit-typed inputs stay in {0,1} (documented precondition, asserted by the descrambler)".into(),
            "constructor parameter preconditions are respected (sps > 1, odd Hilbert length)".into(),
            "Sample::parse is only given slices of the sample's size (the byte-source blocks are responsible for that; see C14)".into(),
        ]
    }
    fn real_vs_stub(&self) -> Value {
        json!({"real": ["AuDecode, SigMF parser and source, tar crate, deframers, Midpointer, Wpcr, VecToStream, StreamToPdu, DSP blocks"], "simulated": ["storage/channel corruption, delivery schedule"], "stub": []})
    }
    fn budget(&self, tier: Tier) -> Budget {
        match tier {
            Tier::Quick => Budget { runs: 100000, max_secs: 40.0 },
            Tier::Thorough => Budget { runs: 3_000_000, max_secs: 900.0 },
        }
    }
    fn fixed_cases(&self) -> u64 {
        2 * n_packets() + n_au() + N_LONG
    }
    fn required(&self, _tier: Tier) -> Vec<&'static str> {
        vec!["fault:truncate", "fault:field_mutation", "fault:bit_flip", "fault:garbage", "sigmf_archive_fault", "sigmf_meta_fault", "hostile_floats", "sigmf_err_returned"]
    }
    fn run(&self, src: &mut Src, ctx: &mut RunCtx) -> RunResult {
        let nfixed = self.fixed_cases();
        let sel = src.draw(nfixed + 1);
        let solo = Solo::new();
        let np = n_packets();
        if sel < 2 * np {
            // Enumerated bursts.
            let pkt = decode_packet(sel % np);
            ctx.nontrivial = true;
            ctx.hash.add(sel);
            let desc = format!("burst {pkt:?}");
            ctx.ev(|| desc.clone());
            if ctx.sample.is_none() && pkt.len() == 3 {
                ctx.sample = Some(json!({"block": if sel < np {"Midpointer"} else {"Wpcr"}, "burst": format!("{pkt:?}")}));
            }
            return solo.with(|| {
                let (p, r) = NcIn::new(vec![pkt]);
                if sel < np {
                    let (b, o) = Midpointer::new(r);
                    run_packet_block("Midpointer", Box::new(b), p, NcOut::new(o, ser_vec::<f32>), desc, &solo, ctx)
                } else {
                    let (b, o) = Wpcr::new(r);
                    run_packet_block("Wpcr", Box::new(b), p, NcOut::new(o, ser_vec::<f32>), desc, &solo, ctx)
                }
            });
        }
        if sel >= nfixed - N_LONG && sel < nfixed {
            return long_constant_run(sel - (nfixed - N_LONG), &solo, ctx);
        }
        if sel < nfixed {
            // Enumerated AU headers.
            let i = sel - 2 * np;
            let off = (i % AU_OFFSETS) as u32;
            let enc = AU_ENCODINGS[((i / AU_OFFSETS) % AU_ENCODINGS.len() as u64) as usize];
            let ch = AU_CHANNELS[(i / AU_OFFSETS / AU_ENCODINGS.len() as u64) as usize];
            let mut b = au_bytes(44100, &[1, -2, 300, -400, 5, 6, 7, 8, 9, 10, 11, 12, 13, 14, 15, 16, 17, 18, 19, 20]);
            b[4..8].copy_from_slice(&off.to_be_bytes());
            b[12..16].copy_from_slice(&enc.to_be_bytes());
            b[20..24].copy_from_slice(&ch.to_be_bytes());
            ctx.nontrivial = true;
            ctx.hash.add(sel);
            ctx.count("fault:field_mutation");
            let desc = format!("data offset {off} encoding {enc} channels {ch}");
            ctx.ev(|| desc.clone());
            return solo.with(|| {
                rustradio::verif::set_stream_size(4096);
                let mut c = au_case(b, desc);
                rustradio::verif::set_stream_size(0);
                c.err_ok = true;
                let mut findings = Vec::new();
                run_oneshot(&mut c, &solo, ctx, &mut findings);
                if let Some(f) = findings.iter().find(|f| f.key.contains("panic")) {
                    return ctx.tolerate(Violation::new(f.key.replacen("C08:", "C15:", 1).replace("panic-oneshot", "panic"), f.msg.clone()));
                }
                Ok(())
            });
        }
        // Seeded part.
        let small = *src.pick(&[4096usize, 4096, 8192]);
        let which = src.below(17);
        ctx.ev(|| format!("C15 seeded case {which} stream {small}"));
        let r = solo.with(|| -> RunResult {
            rustradio::verif::set_stream_size(small);
            let out = (|| -> RunResult {
                match which {
                    0 | 1 => {
                        let b = mutate_au(src, ctx);
                        let desc = format!("{} bytes, header {:02x?}", b.len(), &b[..b.len().min(28)]);
                        if ctx.sample.is_none() {
                            ctx.sample = Some(json!({"block": "AuDecode", "stream": desc}));
                        }
                        let c = au_case(b, desc);
                        let kind_err_before = ctx.counters.get("rig_block_err").copied().unwrap_or(0);
                        let _ = kind_err_before;
                        run_stream_block(c, &solo, src, ctx)
                    }
                    16 => {
                        // Arbitrary bytes (every value, runs of 0x00 / 0xff as
                        // from a clipping receiver) for the raw I/Q decoder.
                        ctx.count("hostile_bytes");
                        let n = gen_len(src, small);
                        let data = gen_u8_vec(src, n);
                        let (p, r) = StreamIn::new(data, vec![]);
                        let (b, o) = RtlSdrDecode::new(r);
                        let mut c = Case::new("RtlSdrDecode", format!("len {n}"), Box::new(b));
                        c.ins = vec![p];
                        c.outs = vec![StreamOut::new(o)];
                        run_stream_block(c, &solo, src, ctx)
                    }
                    2 => sigmf_meta_fault(src, ctx),
                    3 | 4 => sigmf_archive_fault(src, ctx, &solo),
                    5 => {
                        // IL2P: arbitrary bits with sync tags anywhere.
                        let n = gen_len(src, small);
                        let bits = gen_bits(src, n);
                        let mut tags = Vec::new();
                        let k = src.below(12);
                        for i in 0..k {
                            if n > 0 {
                                let key = if src.chance(1, 4) { "other" } else { "sync" };
                                tags.push((src.below(n) as u64, key.to_string(), if src.coin() { TagValue::U64(i as u64) } else { TagValue::String("x".into()) }));
                            }
                        }
                        let (p, r) = StreamIn::new(bits, tags);
                        let (b, o) = Il2pDeframer::new(r);
                        let mut c = Case::new("Il2pDeframer", format!("bits {n}"), Box::new(b));
                        c.ins = vec![p];
                        c.outs = vec![NcOut::new(o, ser_vec::<u8>)];
                        run_stream_block(c, &solo, src, ctx)
                    }
                    6 => {
                        let n = gen_len(src, small);
                        let bits = gen_bits(src, n);
                        let (p, r) = StreamIn::new(bits, vec![]);
                        let min = *src.pick(&[0usize, 1, 2, 5]);
                        let max = *src.pick(&[0usize, 1, 2, 10, 100]);
                        let (mut b, o) = HdlcDeframer::new(r, min, max);
                        b.set_checksum(src.coin());
                        b.set_fix_bits(src.coin());
                        let mut c = Case::new("HdlcDeframer", format!("bits {n} min {min} max {max}"), Box::new(b));
                        c.ins = vec![p];
                        c.outs = vec![NcOut::new(o, ser_vec::<u8>)];
                        run_stream_block(c, &solo, src, ctx)
                    }
                    7 => {
                        // Packets for the packet consumers.
                        let np = src.range(0, 6);
                        let packets: Vec<Vec<f32>> = (0..np)
                            .map(|_| {
                                let l = match src.below(4) {
                                    0 => src.below(9),
                                    1 => 7 + src.below(2),
                                    2 => src.range(9, 200),
                                    _ => src.below(4),
                                };
                                hostile_f32(src, l)
                            })
                            .collect();
                        let desc = format!("{np} bursts of {:?}", packets.iter().map(|p| p.len()).collect::<Vec<_>>());
                        let (p, r) = NcIn::new(packets);
                        match src.below(3) {
                            0 => {
                                let (b, o) = Midpointer::new(r);
                                run_packet_block("Midpointer", Box::new(b), p, NcOut::new(o, ser_vec::<f32>), desc, &solo, ctx)
                            }
                            1 => {
                                let (b, o) = if src.coin() { WpcrBuilder::new(r).samp_rate(*src.pick(&[50000.0f32, 0.0, f32::INFINITY])).build() } else { Wpcr::new(r) };
                                run_packet_block("Wpcr", Box::new(b), p, NcOut::new(o, ser_vec::<f32>), desc, &solo, ctx)
                            }
                            _ => {
                                let (b, o) = VecToStream::new(r);
                                let mut c = Case::new("VecToStream", desc, Box::new(b));
                                c.ins = vec![p];
                                c.outs = vec![StreamOut::new(o)];
                                run_stream_block(c, &solo, src, ctx)
                            }
                        }
                    }
                    8 => {
                        // StreamToPdu with hostile tags.
                        let n = gen_len(src, small / 4);
                        let data = hostile_f32(src, n);
                        let mut tags = Vec::new();
                        let k = src.below(20);
                        for i in 0..k {
                            if n > 0 {
                                let v = match src.below(4) {
                                    0 => TagValue::Bool(true),
                                    1 => TagValue::Bool(false),
                                    2 => TagValue::U64(i as u64),
                                    _ => TagValue::String("burst".into()),
                                };
                                tags.push((src.below(n) as u64, if src.chance(1, 5) { "x".to_string() } else { "burst".to_string() }, v));
                            }
                        }
                        let (p, r) = StreamIn::new(data, tags);
                        let max = *src.pick(&[0usize, 1, 5, 100]);
                        let tail = *src.pick(&[0usize, 1, 50]);
                        let (b, o) = StreamToPdu::new(r, "burst", max, tail);
                        let mut c = Case::new("StreamToPdu", format!("len {n} max {max} tail {tail}"), Box::new(b));
                        c.ins = vec![p];
                        c.outs = vec![NcOut::new(o, ser_vec::<f32>)];
                        run_stream_block(c, &solo, src, ctx)
                    }
                    _ => {
                        ctx.count("hostile_floats");
                        // The clock-recovery blocks emit one value per `sps`
                        // inputs: give them enough for the output to fill up
                        // (what happens on the sample that fills it depends on
                        // the content around it).
                        let n = gen_len(src, if matches!(which, 9 | 10) { 3 * small / 4 } else { small / 8 });
                        let data = hostile_f32(src, n);
                        let cdata: Vec<Complex> = data.chunks(2).map(|c| Complex::new(c[0], *c.get(1).unwrap_or(&0.0))).collect();
                        let c = match which {
                            9 => {
                                let sps = *src.pick(&[2.5f32, 5.2083335, 8.0]);
                                let (p, r) = StreamIn::new(data, vec![]);
                                let filt = rustradio::iir_filter::IirFilter::new(&[0.1, 0.9]);
                                let (b, o) = SymbolSync::new(r, sps, 0.1, Box::new(rustradio::symbol_sync::TedZeroCrossing::new()), Box::new(filt));
                                let mut c = Case::new("SymbolSync", format!("len {n} sps {sps}"), Box::new(b));
                                c.ins = vec![p];
                                c.outs = vec![StreamOut::new(o)];
                                c
                            }
                            10 => {
                                let sps = *src.pick(&[2.5f32, 5.2083335, 8.0]);
                                let (p, r) = StreamIn::new(data, vec![]);
                                let (b, o) = ZeroCrossing::new(r, sps, 0.1);
                                let mut c = Case::new("ZeroCrossing", format!("len {n} sps {sps}"), Box::new(b));
                                c.ins = vec![p];
                                c.outs = vec![StreamOut::new(o)];
                                c
                            }
                            11 => {
                                let (p, r) = StreamIn::new(data, vec![]);
                                let taps: Vec<Float> = (0..src.range(1, 20)).map(|_| gen_f32(src, true)).collect();
                                let (b, o) = FirFilterBuilder::new(&taps).deci(src.range(1, 3)).build(r);
                                let mut c = Case::new("FirFilter<f32>", format!("len {n} ntaps {}", taps.len()), Box::new(b));
                                c.ins = vec![p];
                                c.outs = vec![StreamOut::new(o)];
                                c
                            }
                            12 => {
                                let (p, r) = StreamIn::new(data, vec![]);
                                let taps: Vec<Float> = (0..src.range(1, 12)).map(|_| gen_f32(src, false)).collect();
                                let (b, o) = FftFilterFloat::new(r, &taps);
                                let mut c = Case::new("FftFilterFloat", format!("len {n} ntaps {}", taps.len()), Box::new(b));
                                c.ins = vec![p];
                                c.outs = vec![StreamOut::new(o)];
                                c
                            }
                            13 => {
                                let (p, r) = StreamIn::new(data, vec![]);
                                let (b, o) = Hilbert::new(r, *src.pick(&[3usize, 9, 31]), &WindowType::Hamming);
                                let mut c = Case::new("Hilbert", format!("len {n}"), Box::new(b));
                                c.ins = vec![p];
                                c.outs = vec![StreamOut::new(o)];
                                c
                            }
                            14 => {
                                let (p, r) = StreamIn::new(cdata, vec![]);
                                if src.coin() {
                                    let (b, o) = QuadratureDemod::new(r, 1.0);
                                    let mut c = Case::new("QuadratureDemod", format!("len {n}"), Box::new(b));
                                    c.ins = vec![p];
                                    c.outs = vec![StreamOut::new(o)];
                                    c
                                } else {
                                    let (b, o) = CmaEqualizer::new(src.range(1, 6), 1.0, 0.01, r);
                                    let mut c = Case::new("CmaEqualizer", format!("len {n}"), Box::new(b));
                                    c.ins = vec![p];
                                    c.outs = vec![StreamOut::new(o)];
                                    c
                                }
                            }
                            _ => {
                                let (p, r) = StreamIn::new(data, vec![]);
                                let (b, o) = AuEncode::new(r, rustradio::au::Encoding::Pcm16, 8000, 1);
                                let mut c = Case::new("AuEncode", format!("len {n}"), Box::new(b));
                                c.ins = vec![p];
                                c.outs = vec![StreamOut::new(o)];
                                c
                            }
                        };
                        if ctx.sample.is_none() {
                            ctx.sample = Some(json!({"block": c.kind, "params": c.params, "input": "NaN/inf/denormal/huge floats"}));
                        }
                        run_stream_block(c, &solo, src, ctx)
                    }
                }
            })();
            rustradio::verif::set_stream_size(0);
            out
        });
        for v in &src.log {
            ctx.hash.add(*v);
        }
        r
    }
}

fn sigmf_meta_fault(src: &mut Src, ctx: &mut RunCtx) -> RunResult {
    ctx.count("sigmf_meta_fault");
    let good = sigmf_meta("cf32_le");
    let text = match src.below(8) {
        0 => good.replace("\"core:datatype\": \"cf32_le\", ", ""),
        1 => good.replace("\"cf32_le\"", "17"),
        2 => good.replace("\"captures\": [{\"core:sample_start\": 0}], ", ""),
        3 => good.replace("\"core:sample_start\": 0", "\"core:sample_start\": -1"),
        4 => {
            let cut = src.below(good.len());
            good[..cut].to_string()
        }
        5 => good.replace("48000.0", "\"fast\""),
        6 => {
            let mut b = good.clone().into_bytes();
            let p = src.below(b.len());
            b[p] = src.below(128) as u8;
            String::from_utf8_lossy(&b).into_owned()
        }
        _ => String::new(),
    };
    ctx.nontrivial = true;
    ctx.ev(|| format!("sigmf meta: {text}"));
    if ctx.sample.is_none() {
        ctx.sample = Some(json!({"parser": "sigmf::parse_meta", "text": text}));
    }
    match catch(|| rustradio::sigmf::parse_meta(&text)) {
        Ok(Ok(_)) => Ok(()),
        Ok(Err(_)) => {
            ctx.count("sigmf_err_returned");
            Ok(())
        }
        Err(p) => ctx.tolerate(Violation::new(format!("C15:sigmf-meta:panic:{}", p.site()), format!("parse_meta panicked on {text:?}: {} at {}", p.msg, p.loc))),
    }
}

fn sigmf_archive_fault(src: &mut Src, ctx: &mut RunCtx, solo: &Solo) -> RunResult {
    ctx.count("sigmf_archive_fault");
    let dir = tempfile::tempdir().map_err(|e| Violation::new("HARNESS-PANIC tempdir", e.to_string()))?;
    let path = dir.path().join("capture.sigmf");
    let n = src.below(300);
    // Whole samples, or with a few stray bytes at the end (a recording cut
    // off in mid-sample).
    let stray = if src.chance(1, 3) { src.range(1, 7) } else { 0 };
    let data: Vec<u8> = (0..n * 8 + stray).map(|i| i as u8).collect();
    let fault = src.below(10);
    let bytes: Vec<u8> = match fault {
        9 => {
            // Well-formed archive, hostile metadata values: the datatype string
            // in particular is compared and sliced by the constructor.
            let dt: String = match src.below(4) {
                0 => (*src.pick(&["", "u", "u8", "i8", "cf", "_be", "_le", "e_", "\\u00e9a_", "rf32\\u20ace", "rf32_be", "cf32", "cf32_be", "ri16_le", "cf64_le", "CF32_LE", " cf32_le", "cf32_le "])).to_string(),
                1 => {
                    let l = src.below(4);
                    (0..l).map(|_| *src.pick(&['u', '8', '_', 'e', 'b', 'l', 'c', 'f'])).collect()
                }
                2 => {
                    let l = src.below(12);
                    (0..l).map(|_| *src.pick(&['r', 'c', 'f', 'i', 'u', '3', '2', '1', '6', '8', '_', 'l', 'b', 'e', '\u{e9}', '\u{20ac}'])).collect()
                }
                _ => "cf32_le".to_string(),
            };
            ctx.count("fault:hostile_datatype");
            let meta = sigmf_meta("cf32_le").replace("cf32_le", &dt);
            sigmf_archive(src, &meta, &data)
        }
        0 => {
            let t = sigmf_archive(src, &sigmf_meta("cf32_le"), &data);
            let cut = src.below(t.len());
            ctx.count("fault:truncate");
            t[..cut].to_vec()
        }
        1 => sigmf_archive(src, "", &data), // zero-length meta
        2 => sigmf_archive(src, &sigmf_meta("cf32_le"), &[]), // zero-length data
        3 | 4 | 5 | 6 => {
            // Hand-built: duplicate / non-regular / missing members.
            let mut b = tar::Builder::new(Vec::new());
            let mut add = |name: &str, content: &[u8], ty: tar::EntryType| {
                let mut h = tar::Header::new_gnu();
                h.set_size(if ty == tar::EntryType::Regular { content.len() as u64 } else { 0 });
                h.set_mode(0o644);
                h.set_entry_type(ty);
                if ty == tar::EntryType::Symlink {
                    let _ = h.set_link_name("elsewhere");
                }
                h.set_cksum();
                let body: &[u8] = if ty == tar::EntryType::Regular { content } else { &[] };
                b.append_data(&mut h, name, body).expect("tar append");
            };
            let meta = sigmf_meta("cf32_le");
            match fault {
                3 => {
                    add("rec/a.sigmf-meta", meta.as_bytes(), tar::EntryType::Regular);
                    add("rec/a.sigmf-data", &data, tar::EntryType::Regular);
                    add("rec/a.sigmf-data", &data, tar::EntryType::Regular);
                }
                4 => {
                    add("rec/a.sigmf-meta", meta.as_bytes(), tar::EntryType::Regular);
                    add("rec/b.sigmf-meta", meta.as_bytes(), tar::EntryType::Regular);
                    add("rec/a.sigmf-data", &data, tar::EntryType::Regular);
                }
                5 => {
                    let ty = *src.pick(&[tar::EntryType::Directory, tar::EntryType::Symlink, tar::EntryType::Fifo]);
                    if src.coin() {
                        add("rec/a.sigmf-meta", meta.as_bytes(), ty);
                        add("rec/a.sigmf-data", &data, tar::EntryType::Regular);
                    } else {
                        add("rec/a.sigmf-meta", meta.as_bytes(), tar::EntryType::Regular);
                        add("rec/a.sigmf-data", &data, ty);
                    }
                }
                _ => {
                    if src.coin() {
                        add("rec/a.sigmf-meta", meta.as_bytes(), tar::EntryType::Regular);
                    } else {
                        add("rec/a.sigmf-data", &data, tar::EntryType::Regular);
                    }
                }
            }
            b.into_inner().expect("tar finish")
        }
        7 => {
            let mut t = sigmf_archive(src, &sigmf_meta("cf32_le"), &data);
            let k = src.range(1, 6);
            for _ in 0..k {
                let p = src.below(t.len().min(1536));
                t[p] ^= 1 << src.below(8);
            }
            ctx.count("fault:bit_flip");
            t
        }
        _ => {
            let l = src.below(3000);
            ctx.count("fault:garbage");
            (0..l).map(|_| src.below(256) as u8).collect()
        }
    };
    std::fs::write(&path, &bytes).map_err(|e| Violation::new("HARNESS-PANIC write", e.to_string()))?;
    ctx.nontrivial = true;
    ctx.ev(|| format!("sigmf archive fault {fault}, {} bytes", bytes.len()));
    if ctx.sample.is_none() {
        ctx.sample = Some(json!({"source": "SigMFSource from archive", "fault": fault, "archive_bytes": bytes.len()}));
    }
    // The caller's settings are not hostile input, but they decide which paths
    // the hostile content reaches (a rewind of an empty or cut-off recording).
    let reps = *src.pick(&[1u64, 1, 0, 2, 3]);
    let lenient = src.chance(1, 4);
    let built = catch(|| {
        let mut b = SigMFSourceBuilder::<Complex>::new(path.clone());
        if reps != 1 {
            b = b.repeat(rustradio::Repeat::finite(reps));
        }
        if lenient {
            b = b.ignore_type_error();
        }
        b.build()
    });
    let fault = format!("{fault} (repeat {reps}{})", if lenient { ", type errors ignored" } else { "" });
    match built {
        Err(p) => ctx.tolerate(Violation::new(format!("C15:sigmf-archive:panic:{}", p.site()), format!("SigMFSource constructor panicked on archive fault {fault}: {} at {}", p.msg, p.loc))),
        Ok(Err(_)) => {
            ctx.count("sigmf_err_returned");
            Ok(())
        }
        Ok(Ok((b, o))) => {
            // Accepted: must then run without crashing.
            let mut c = Case::new("SigMFSource(archive)", format!("fault {fault}"), Box::new(b));
            c.outs = vec![StreamOut::new(o)];
            c.err_ok = true;
            for _ in 0..2000 {
                let st = step(&mut c, solo, false);
                c.outs[0].drain(usize::MAX);
                match &st.verdict {
                    Verdict::Panic(p) => {
                        return ctx.tolerate(Violation::new(format!("C15:sigmf-archive:panic:{}", p.site), format!("SigMFSource work() panicked after archive fault {fault}: {} at {}", p.msg, p.loc)));
                    }
                    Verdict::Eof | Verdict::Err(_) => return Ok(()),
                    _ => {}
                }
            }
            ctx.tolerate(Violation::new("C15:sigmf-archive:no-eof", format!("SigMFSource on archive fault {fault}: no EOF after 2000 calls")))
        }
    }
}

/// Clock-recovery blocks keep sample positions in f32, which stops counting at
/// 2^24: more than 2^24 samples without a sign change (silence, a constant),
/// then transitions on consecutive samples.
const N_LONG: u64 = 6;

fn long_constant_run(i: u64, solo: &std::sync::Arc<Solo>, ctx: &mut RunCtx) -> RunResult {
    use rustradio::block::BlockRet;
    use rustradio::stream::new_stream;
    let level = [0.0f32, 1.0, -1.0][(i % 3) as usize];
    let zc = i / 3 == 1;
    let name = if zc { "ZeroCrossing" } else { "SymbolSync" };
    let desc = format!("{name}: {} samples of {level}, then 64 alternating +-1", (1usize << 24) + 4096);
    ctx.nontrivial = true;
    ctx.hash.add(0x10c0 + i);
    ctx.count("long_run_without_sign_change");
    ctx.ev(|| desc.clone());
    if ctx.sample.is_none() {
        ctx.sample = Some(json!({"block": name, "input": desc}));
    }
    let total: usize = (1 << 24) + 4096;
    let r = solo.with(|| {
        catch(|| -> Result<usize, String> {
            let (w, r) = new_stream::<f32>();
            let (mut b, o): (Box<dyn Block>, rustradio::stream::ReadStream<f32>) = if zc {
                let (b, o) = ZeroCrossing::new(r, 5.2083335, 0.5);
                (Box::new(b), o)
            } else {
                let (b, o) = SymbolSync::new(r, 36.75, 0.5, Box::new(rustradio::symbol_sync::TedZeroCrossing::new()), Box::new(rustradio::iir_filter::IirFilter::new(&[0.1, 0.9])));
                (Box::new(b), o)
            };
            let mut fed = 0usize;
            let mut outn = 0usize;
            let end = total + 64;
            let mut guard = 0u64;
            while fed < end {
                {
                    let mut wb = w.write_buf().map_err(|e| e.to_string())?;
                    let n = wb.len().min(end - fed);
                    for (k, p) in wb.slice().iter_mut().take(n).enumerate() {
                        let at = fed + k;
                        *p = if at < total { level } else if (at - total) % 2 == 0 { 1.0 } else { -1.0 };
                    }
                    wb.produce(n, &[]);
                    fed += n;
                }
                loop {
                    guard += 1;
                    if guard > 10_000_000 {
                        return Err("no end after 10M work() calls".into());
                    }
                    let again = matches!(b.work().map_err(|e| e.to_string())?, BlockRet::Again);
                    let (rb, _) = o.read_buf().map_err(|e| e.to_string())?;
                    let n = rb.len();
                    outn += n;
                    rb.consume(n);
                    if !again {
                        break;
                    }
                }
            }
            Ok(outn)
        })
    });
    match r {
        Err(p) => ctx.tolerate(Violation::new(format!("C15:{name}:panic:{}", p.site()), format!("{desc}: work() panicked: {} at {}", p.msg, p.loc))),
        Ok(Err(e)) => ctx.tolerate(Violation::new(format!("C15:{name}:long-run-error"), format!("{desc}: {e}"))),
        Ok(Ok(n)) => {
            ctx.ev(|| format!("{n} output samples"));
            Ok(())
        }
    }
}
