//! C16: finite sources (VectorSource, FileSource, SigMFSource from a recording
//! and from an archive) under seeded downstream consumption schedules, and
//! the Repeat counter API enumerated exhaustively against a model.

use std::io::Write;

use rustradio::blocks::*;
use rustradio::stream::TagValue;
use rustradio::{Complex, Repeat, Sample};
use serde_json::{Value, json};

use crate::engine::{Budget, Check, RunCtx, RunResult, Tier, Violation, catch};
use crate::rig::*;
use crate::rt::Solo;
use crate::src::Src;

pub struct SourceCheck;

const SEQ_LEN: u32 = 7;
const N_SEQ: u64 = 5 * 3u64.pow(SEQ_LEN);

#[derive(Clone, Copy, Debug, PartialEq)]
pub enum Rep {
    Finite(u64),
    Infinite,
}

impl Rep {
    fn make(&self) -> Repeat {
        match self {
            Rep::Finite(n) => Repeat::finite(*n),
            Rep::Infinite => Repeat::infinite(),
        }
    }
}

/// Reference model of the repeat counter, from its documentation: finite(n)
/// allows n repetitions; again() registers one completed repetition and says
/// whether another follows; done() says no repetition is left; count() is the
/// number of registered repetitions. Nothing wraps.
struct RefRepeat {
    left: Option<u64>,
    count: u64,
}
impl RefRepeat {
    fn new(r: Rep) -> Self {
        Self {
            left: match r {
                Rep::Finite(n) => Some(n),
                Rep::Infinite => None,
            },
            count: 0,
        }
    }
    fn again(&mut self) -> bool {
        self.count += 1;
        match &mut self.left {
            None => true,
            Some(n) => {
                let more = *n > 1;
                *n = n.saturating_sub(1);
                more
            }
        }
    }
    fn done(&self) -> bool {
        self.left == Some(0)
    }
}

fn repeat_sequence_case(idx: u64, ctx: &mut RunCtx) -> RunResult {
    let init = match idx % 5 {
        0 => Rep::Finite(0),
        1 => Rep::Finite(1),
        2 => Rep::Finite(2),
        3 => Rep::Finite(3),
        _ => Rep::Infinite,
    };
    let mut code = idx / 5;
    let mut ops = Vec::new();
    for _ in 0..SEQ_LEN {
        ops.push(code % 3);
        code /= 3;
    }
    ctx.nontrivial = true;
    ctx.hash.add(idx ^ 0x5e9);
    ctx.ev(|| format!("Repeat {init:?} ops {ops:?} (0 again, 1 done, 2 count)"));
    let r = catch(|| {
        let mut real = init.make();
        let mut model = RefRepeat::new(init);
        for (i, op) in ops.iter().enumerate() {
            match op {
                0 => {
                    let (a, b) = (real.again(), model.again());
                    if a != b {
                        return Err(format!("op {i}: again() = {a}, model {b}"));
                    }
                }
                1 => {
                    let (a, b) = (real.done(), model.done());
                    if a != b {
                        return Err(format!("op {i}: done() = {a}, model {b}"));
                    }
                }
                _ => {
                    let (a, b) = (real.count(), model.count);
                    if a != b {
                        return Err(format!("op {i}: count() = {a}, model {b}"));
                    }
                }
            }
        }
        Ok(())
    });
    match r {
        Ok(Ok(())) => Ok(()),
        Ok(Err(e)) => ctx.tolerate(Violation::new("C16:repeat-api-mismatch", format!("Repeat {init:?}, ops {ops:?}: {e}"))),
        Err(p) => ctx.tolerate(Violation::new(format!("C16:repeat-api-panic:{}", p.site()), format!("Repeat {init:?}, ops {ops:?} (0 again, 1 done, 2 count): {} at {}", p.msg, p.loc))),
    }
}

fn ser<T: Sample>(d: &[T]) -> Vec<u8> {
    let mut v = Vec::new();
    for x in d {
        v.extend(x.serialize());
    }
    v
}

pub fn sigmf_meta(datatype: &str) -> String {
    format!("{{\"global\": {{\"core:datatype\": \"{datatype}\", \"core:version\": \"1.1.0\", \"core:sample_rate\": 48000.0}}, \"captures\": [{{\"core:sample_start\": 0}}], \"annotations\": []}}")
}

/// Build a tar archive with the recording plus unrelated members, in a
/// seeded member order.
pub fn sigmf_archive(src: &mut Src, meta: &str, data: &[u8]) -> Vec<u8> {
    // Member paths of ordinary length, or around the 100 bytes that fit the
    // fixed name field of a tar header (longer ones travel in a GNU long-name
    // record that only `Entry::path()` applies): 100, 101 and 135 bytes.
    let dir: String = match src.below(6) {
        0 => "r".repeat(81),
        1 => "r".repeat(82),
        2 => "r".repeat(116),
        _ => "rec".into(),
    };
    let mut members: Vec<(String, Vec<u8>)> = vec![(format!("{dir}/capture.sigmf-meta"), meta.as_bytes().to_vec()), (format!("{dir}/capture.sigmf-data"), data.to_vec())];
    let extra = src.below(3);
    for i in 0..extra {
        let n = src.below(700);
        // Unrelated members, some with the recording's own file name in
        // another directory (no metadata of their own: not a second recording).
        let name = match src.below(4) {
            0 => "old/capture.sigmf-data".to_string(),
            1 => "capture.sigmf-data.bak".to_string(),
            _ => format!("{dir}/unrelated{i}.txt"),
        };
        if members.iter().any(|m| m.0 == name) {
            continue;
        }
        members.push((name, vec![b'x'; n]));
    }
    // seeded order
    for i in (1..members.len()).rev() {
        let j = src.below(i + 1);
        members.swap(i, j);
    }
    let mut b = tar::Builder::new(Vec::new());
    for (name, content) in members {
        let mut h = tar::Header::new_gnu();
        h.set_size(content.len() as u64);
        h.set_mode(0o644);
        h.set_entry_type(tar::EntryType::Regular);
        h.set_cksum();
        b.append_data(&mut h, name, &content[..]).expect("tar append");
    }
    b.into_inner().expect("tar finish")
}

#[derive(Clone, Copy, Debug)]
enum Kind {
    Vector,
    FileU32,
    FileC32,
    FileU8,
    SigmfRecordingC32,
    SigmfArchiveC32,
    SigmfArchiveU8,
}

impl Check for SourceCheck {
    fn id(&self) -> &'static str {
        "C16"
    }
    fn rule(&self) -> String {
        format!(
            "enumerated part: all {N_SEQ} call sequences of length {SEQ_LEN} over {{again, done, count}} from finite(0..3) and infinite on the real Repeat against a reference counter (no panic, no wrap). \
             seeded part: one run = one source (VectorSource, FileSource<u32/Complex/u8>, SigMFSource from a recording and from a tar archive with seeded member order and unrelated members) x data length in {{0,1,cap-1,cap,cap+1,3cap+r,small}} x repeat in {{0,1,2,3,infinite}} on a 1-2 page stream with seeded wrap offset, under a seeded downstream schedule (drain 0..k between work() calls, output held full). \
             Checked: emitted == data^repeat exactly; EOF not before the last sample and within 3 calls after it; infinite repeat never EOF over 5 repetitions; VectorSource start/repeat tags once per repetition on its first sample and the first-tag once; no panic. \
             non-trivial = a repetition was emitted in more than one piece or the repeat count is not 1; distinct = hash of the decision list / sequence index"
        )
    }
    fn assumptions(&self) -> Vec<String> {
        vec![
            "files hold a whole number of samples".into(),
            "empty data with infinite repeat is vacuous (EOF accepted, not generated for file sources)".into(),
            "a source is not called again after it returned EOF".into(),
        ]
    }
    fn real_vs_stub(&self) -> Value {
        json!({"real": ["Repeat, VectorSource, FileSource, SigMFSource, tar crate, file system (tmp dir)"], "simulated": ["downstream consumer (drain schedule), stream size and wrap offset"], "stub": []})
    }
    fn level(&self) -> &'static str {
        "exploration"
    }
    fn budget(&self, tier: Tier) -> Budget {
        match tier {
            Tier::Quick => Budget { runs: 60000, max_secs: 40.0 },
            Tier::Thorough => Budget { runs: 2_000_000, max_secs: 900.0 },
        }
    }
    fn fixed_cases(&self) -> u64 {
        N_SEQ
    }
    fn required(&self, _tier: Tier) -> Vec<&'static str> {
        vec!["repetition_in_several_pieces", "repeat_zero", "repeat_infinite", "source_larger_than_stream", "eof_exact", "fault:output_full", "archive_source", "recording_source"]
    }
    fn run(&self, src: &mut Src, ctx: &mut RunCtx) -> RunResult {
        let sel = src.draw(N_SEQ + 1);
        if sel < N_SEQ {
            return repeat_sequence_case(sel, ctx);
        }
        let kind = *src.pick(&[Kind::Vector, Kind::Vector, Kind::FileU32, Kind::FileC32, Kind::FileU8, Kind::SigmfRecordingC32, Kind::SigmfArchiveC32, Kind::SigmfArchiveU8]);
        let small = *src.pick(&[4096usize, 4096, 8192]);
        let esz = match kind {
            Kind::Vector | Kind::FileU32 => 4,
            Kind::FileC32 | Kind::SigmfRecordingC32 | Kind::SigmfArchiveC32 => 8,
            Kind::FileU8 | Kind::SigmfArchiveU8 => 1,
        };
        let cap = small / esz;
        let len = match src.below(11) {
            0 => 0,
            1 => 1,
            2 => cap - 1,
            3 => cap,
            4 => cap + 1,
            5 => 3 * cap + src.below(17),
            6 => src.range(1, 2 * cap),
            // Lengths that divide the stream: a repetition can end exactly where the stream is full.
            9 => cap / 2,
            10 => cap / 4,
            _ => src.range(1, cap.min(300)),
        };
        let rep = match src.below(6) {
            0 => Rep::Finite(0),
            1 => Rep::Finite(1),
            2 => Rep::Finite(2),
            3 => Rep::Finite(3),
            4 => Rep::Infinite,
            _ => Rep::Finite(1),
        };
        // Empty data with infinite repeat is vacuous.
        let rep = if len == 0 && rep == Rep::Infinite { Rep::Finite(2) } else { rep };
        // Stray bytes after the last whole sample (file and recording kinds).
        let junk: usize = if matches!(kind, Kind::FileU32 | Kind::FileC32 | Kind::SigmfRecordingC32) && src.chance(1, 4) { src.range(1, 7) } else { 0 };
        if junk > 0 {
            ctx.count("file_ends_in_partial_sample");
        }
        ctx.ev(|| format!("C16 {kind:?} len {len} repeat {rep:?} stream {small} junk {junk}"));
        if ctx.sample.is_none() {
            ctx.sample = Some(json!({"source": format!("{kind:?}"), "data_len": len, "repeat": format!("{rep:?}"), "stream_bytes": small}));
        }
        match rep {
            Rep::Finite(0) => ctx.count("repeat_zero"),
            Rep::Infinite => ctx.count("repeat_infinite"),
            _ => {}
        }
        if len > cap {
            ctx.count("source_larger_than_stream");
        }
        let dir = tempfile::tempdir().map_err(|e| Violation::new("HARNESS-PANIC tempdir", e.to_string()))?;
        let solo = Solo::new();
        // Sample values: index-derived so that each position is attributable.
        let u32_data: Vec<u32> = (0..len as u32).map(|i| i.wrapping_mul(2654435761) ^ 0x5555).collect();
        let c32_data: Vec<Complex> = (0..len).map(|i| Complex::new(i as f32, -(i as f32) * 0.5)).collect();
        let u8_data: Vec<u8> = (0..len).map(|i| (i * 7 + 3) as u8).collect();
        let built: Result<Result<(Case, Vec<u8>), String>, _> = solo.with(|| {
            catch(|| -> Result<(Case, Vec<u8>), String> {
                rustradio::verif::set_stream_size(small);
                let r = (|| -> Result<(Case, Vec<u8>), String> {
                    match kind {
                        Kind::Vector => {
                            let (b, o) = VectorSourceBuilder::new(u32_data.clone()).repeat(rep.make()).build();
                            let mut c = Case::new("VectorSource", format!("len {len} repeat {rep:?}"), Box::new(b));
                            c.outs = vec![StreamOut::new(o)];
                            let mut bytes = Vec::new();
                            u32_data.iter().for_each(|x| x.bits(&mut bytes));
                            Ok((c, bytes))
                        }
                        Kind::FileU32 | Kind::FileC32 | Kind::FileU8 => {
                            let path = dir.path().join("data.bin");
                            let raw = match kind {
                                Kind::FileU32 => ser(&u32_data),
                                Kind::FileC32 => ser(&c32_data),
                                _ => ser(&u8_data),
                            };
                            // Sometimes the file ends in a partial sample (1..size-1
                            // stray bytes): they belong to no sample, in any repetition.
                            let mut on_disk = raw.clone();
                            if !matches!(kind, Kind::FileU8) && junk > 0 {
                                let sz = if matches!(kind, Kind::FileU32) { 4 } else { 8 };
                                on_disk.extend((0..1 + (junk - 1) % (sz - 1)).map(|i| 0xE0u8 + i as u8));
                            }
                            std::fs::File::create(&path).and_then(|mut f| f.write_all(&on_disk)).map_err(|e| e.to_string())?;
                            match kind {
                                Kind::FileU32 => {
                                    let (mut b, o) = FileSource::<u32>::new(&path).map_err(|e| e.to_string())?;
                                    b.repeat(rep.make());
                                    let mut c = Case::new("FileSource<u32>", format!("len {len} repeat {rep:?}"), Box::new(b));
                                    c.outs = vec![StreamOut::new(o)];
                                    Ok((c, raw))
                                }
                                Kind::FileC32 => {
                                    let (mut b, o) = FileSource::<Complex>::new(&path).map_err(|e| e.to_string())?;
                                    b.repeat(rep.make());
                                    let mut c = Case::new("FileSource<Complex>", format!("len {len} repeat {rep:?}"), Box::new(b));
                                    c.outs = vec![StreamOut::new(o)];
                                    Ok((c, raw))
                                }
                                _ => {
                                    let (mut b, o) = FileSource::<u8>::new(&path).map_err(|e| e.to_string())?;
                                    b.repeat(rep.make());
                                    let mut c = Case::new("FileSource<u8>", format!("len {len} repeat {rep:?}"), Box::new(b));
                                    c.outs = vec![StreamOut::new(o)];
                                    Ok((c, raw))
                                }
                            }
                        }
                        Kind::SigmfRecordingC32 => {
                            let base = dir.path().join("capture.sigmf");
                            let raw = ser(&c32_data);
                            std::fs::write(dir.path().join("capture.sigmf-meta"), sigmf_meta("cf32_le")).map_err(|e| e.to_string())?;
                            let mut on_disk = raw.clone();
                            if junk > 0 {
                                on_disk.extend((0..1 + (junk - 1) % 7).map(|i| 0xE0u8 + i as u8));
                            }
                            std::fs::write(dir.path().join("capture.sigmf-data"), &on_disk).map_err(|e| e.to_string())?;
                            let (b, o) = SigMFSourceBuilder::<Complex>::new(base).repeat(rep.make()).build().map_err(|e| e.to_string())?;
                            let mut c = Case::new("SigMFSource(recording)", format!("len {len} repeat {rep:?}"), Box::new(b));
                            c.outs = vec![StreamOut::new(o)];
                            Ok((c, raw))
                        }
                        Kind::SigmfArchiveC32 | Kind::SigmfArchiveU8 => {
                            let path = dir.path().join("capture.sigmf");
                            let (raw, dt) = if matches!(kind, Kind::SigmfArchiveC32) { (ser(&c32_data), "cf32_le") } else { (ser(&u8_data), "ru8_le") };
                            let tarbytes = sigmf_archive(src, &sigmf_meta(dt), &raw);
                            std::fs::write(&path, tarbytes).map_err(|e| e.to_string())?;
                            if matches!(kind, Kind::SigmfArchiveC32) {
                                let (b, o) = SigMFSourceBuilder::<Complex>::new(path).repeat(rep.make()).build().map_err(|e| e.to_string())?;
                                let mut c = Case::new("SigMFSource(archive)", format!("len {len} repeat {rep:?}"), Box::new(b));
                                c.outs = vec![StreamOut::new(o)];
                                Ok((c, raw))
                            } else {
                                let (b, o) = SigMFSourceBuilder::<u8>::new(path).repeat(rep.make()).build().map_err(|e| e.to_string())?;
                                let mut c = Case::new("SigMFSource<u8>(archive)", format!("len {len} repeat {rep:?}"), Box::new(b));
                                c.outs = vec![StreamOut::new(o)];
                                Ok((c, raw))
                            }
                        }
                    }
                })();
                rustradio::verif::set_stream_size(0);
                r
            })
        });
        rustradio::verif::set_stream_size(0);
        let (mut case, one_rep) = match built {
            Err(p) => return ctx.tolerate(Violation::new(format!("C16:{kind:?}:constructor-panic:{}", p.site()), format!("{kind:?} len {len} repeat {rep:?}: constructor panicked: {} at {}", p.msg, p.loc))),
            Ok(Err(e)) => return ctx.tolerate(Violation::new(format!("C16:{kind:?}:constructor-err"), format!("{kind:?} len {len} repeat {rep:?}: constructor failed on valid input: {e}"))),
            Ok(Ok(x)) => x,
        };
        match kind {
            Kind::SigmfArchiveC32 | Kind::SigmfArchiveU8 => ctx.count("archive_source"),
            Kind::SigmfRecordingC32 => ctx.count("recording_source"),
            _ => {}
        }
        let kname = case.kind;
        // Wrap offset.
        {
            let capo = case.outs[0].capacity();
            let off = match src.below(3) {
                0 => 0,
                1 => capo - 1,
                _ => src.below(capo),
            };
            case.outs[0].preroll(off);
        }
        let item = one_rep.len() / len.max(1);
        let expected_items: Option<usize> = match rep {
            Rep::Finite(n) => Some(len * n as usize),
            Rep::Infinite => None,
        };
        let target_inf = 5 * len + 3;
        let drain_style = src.below(3);
        // A stubborn downstream leaves a full stream alone for several calls in a row.
        let stubborn = src.chance(1, 3);
        let mut held = 0;
        // Bounded, so that a long source drained a few items at a time still ends within the call budget.
        let mut held_total = 0;
        let mut calls_since_complete = 0;
        let mut pieces_this_rep_max = 0usize;
        let mut eof_seen = false;
        let mut guard = 0;
        let mut verdict_log: Vec<String> = Vec::new();
        let res: RunResult = solo.with(|| {
            loop {
                guard += 1;
                if guard > 50_000 {
                    return Err(Violation::new(format!("C16:{kname}:no-eof"), format!("{kname} len {len} repeat {rep:?}: no EOF after {guard} calls ({} items emitted)", case.outs[0].collected() + case.outs[0].available())));
                }
                // Downstream.
                let avail = case.outs[0].available();
                let full = avail == case.outs[0].capacity();
                if full {
                    ctx.count("fault:output_full");
                }
                let do_drain = if full && stubborn && held < 3 && held_total < 60 {
                    held += 1;
                    held_total += 1;
                    false
                } else {
                    held = 0;
                    full && src.chance(3, 4) || src.chance(1, 3)
                };
                if do_drain && avail > 0 {
                    let m = match drain_style {
                        0 => src.range(1, avail.min(7)),
                        1 => avail,
                        _ => src.range(1, avail),
                    };
                    case.outs[0].drain(m);
                }
                let before = case.outs[0].collected() + case.outs[0].available();
                let had_room = case.outs[0].available() < case.outs[0].capacity();
                let st = step(&mut case, &solo, false);
                ctx.steps += 1;
                let after = case.outs[0].collected() + case.outs[0].available();
                if verdict_log.len() < 40 {
                    verdict_log.push(format!("{:?}+{}", st.verdict, after - before));
                }
                if after > before && len > 0 {
                    // pieces per repetition
                    let r0 = before / len;
                    let r1 = (after - 1) / len;
                    if r0 == r1 && before % len != 0 {
                        pieces_this_rep_max = pieces_this_rep_max.max(2);
                    }
                }
                match &st.verdict {
                    Verdict::Panic(p) => {
                        return Err(Violation::new(format!("C16:{kname}:panic:{}", p.site), format!("{kname} len {len} repeat {rep:?}: work() panicked after {after} items: {} at {} (verdicts {verdict_log:?})", p.msg, p.loc)));
                    }
                    Verdict::Err(e) => {
                        return Err(Violation::new(format!("C16:{kname}:err"), format!("{kname} len {len} repeat {rep:?}: work() failed: {e}")));
                    }
                    Verdict::Eof => {
                        eof_seen = true;
                        break;
                    }
                    _ => {}
                }
                match expected_items {
                    Some(e) => {
                        if after > e {
                            return Err(Violation::new(format!("C16:{kname}:too-much"), format!("{kname} len {len} repeat {rep:?}: {after} items emitted, expected {e}")));
                        }
                        if after == e && had_room {
                            calls_since_complete += 1;
                            // A file that holds stray bytes but no whole sample is
                            // "complete" from the start, yet the source still has to
                            // walk through its repetitions (a read and a rewind each).
                            let bound = 3 + if junk > 0 { if let Rep::Finite(k) = rep { 3 * k as usize } else { 0 } } else { 0 };
                            if calls_since_complete > bound {
                                return Err(Violation::new(format!("C16:{kname}:eof-late"), format!("{kname} len {len} repeat {rep:?}: all {e} items emitted but no EOF in {calls_since_complete} further calls (verdicts {verdict_log:?})")));
                            }
                        }
                    }
                    None => {
                        if after >= target_inf {
                            break;
                        }
                    }
                }
            }
            case.outs[0].drain(usize::MAX);
            Ok(())
        });
        for v in &src.log {
            ctx.hash.add(*v);
        }
        if pieces_this_rep_max >= 2 {
            ctx.count("repetition_in_several_pieces");
            ctx.nontrivial = true;
        }
        if rep != Rep::Finite(1) {
            ctx.nontrivial = true;
        }
        if let Err(v) = res {
            return ctx.tolerate(v);
        }
        let got = case.outs[0].bytes();
        let got_items = case.outs[0].collected();
        match expected_items {
            Some(e) => {
                if !eof_seen {
                    return ctx.tolerate(Violation::new(format!("C16:{kname}:no-eof"), format!("{kname} len {len} repeat {rep:?}: loop ended without EOF")));
                }
                if got_items != e {
                    return ctx.tolerate(Violation::new(
                        format!("C16:{kname}:count"),
                        format!("{kname} len {len} repeat {rep:?}: EOF after {got_items} items, expected {e} (verdicts {verdict_log:?})"),
                    ));
                }
                ctx.count("eof_exact");
            }
            None => {
                if eof_seen {
                    return ctx.tolerate(Violation::new(format!("C16:{kname}:eof-on-infinite"), format!("{kname} len {len}: infinite repeat reported EOF after {got_items} items")));
                }
            }
        }
        // Content: data repeated.
        for i in 0..got_items {
            let a = &got[i * item..(i + 1) * item];
            let k = i % len.max(1);
            let b = &one_rep[k * item..(k + 1) * item];
            if a != b {
                return ctx.tolerate(Violation::new(format!("C16:{kname}:content"), format!("{kname} len {len} repeat {rep:?}: item {i} differs from data[{k}]")));
            }
        }
        // VectorSource tags.
        if matches!(kind, Kind::Vector) && len > 0 {
            let mut want: Vec<TagRec> = Vec::new();
            let reps = got_items.div_ceil(len);
            for r in 0..reps {
                let idx = (r * len) as u64;
                if (idx as usize) < got_items {
                    want.push((idx, "VectorSource::start".into(), TagValue::Bool(true)));
                    want.push((idx, "VectorSource::repeat".into(), TagValue::U64(r as u64)));
                    if r == 0 {
                        want.push((idx, "VectorSource::first".into(), TagValue::Bool(true)));
                    }
                }
            }
            let g = tags_to_multiset(case.outs[0].tags());
            let w = tags_to_multiset(&want);
            if g != w {
                let extra: Vec<_> = g.iter().filter(|x| !w.contains(x)).take(4).collect();
                let dup = g.len() as i64 - w.len() as i64;
                return ctx.tolerate(Violation::new(
                    "C16:VectorSource:tags",
                    format!("VectorSource len {len} repeat {rep:?}: {} tags delivered, {} expected ({dup:+}); unexpected e.g. {extra:?}", g.len(), w.len()),
                ));
            }
            ctx.count("vector_source_tags_checked");
        }
        Ok(())
    }
}
