//! C19: blocks built with the derive macro in the harness crate (sync and
//! sync_tag, 1..3 inputs x 1..3 outputs, mixed element types, default/into
//! fields, copy and non-copy outputs), driven by the drip-feed environment
//! and checked step by step against the documented contract.

use std::borrow::Cow;

use rustradio::block::{Block, BlockRet};
use rustradio::stream::{NCReadStream, NCWriteStream, ReadStream, Tag, TagValue, WriteStream};
use rustradio::{Result, rustradio_macros};
use serde_json::{Value, json};

use crate::datagen::gen_tags;
use crate::engine::{Budget, Check, RunCtx, RunResult, Tier, Violation};
use crate::rig::*;
use crate::rt::Solo;
use crate::src::Src;

// ---- harness-defined derive blocks ----------------------------------------

fn f1(a: u32, b: u8, c: f32) -> u32 {
    a ^ ((b as u32) << 8) ^ c.to_bits().rotate_left(3)
}
fn f2(a: u32, b: u8, c: f32) -> u64 {
    ((a as u64) << 16) | ((b as u64) << 4) | ((c.to_bits() & 0xf) as u64)
}
fn f3(a: u32, b: u8, c: f32) -> f32 {
    (a % 1000) as f32 + b as f32 * 0.5 + c
}

macro_rules! sync_block {
    ($name:ident; [$($in:ident : $it:ty),+]; [$($out:ident : $ot:ty),+]; |$a:ident, $b:ident, $c:ident| $body:expr; $ret:ty) => {
        #[derive(rustradio_macros::Block)]
        #[rustradio(new, sync)]
        pub struct $name {
            $(#[rustradio(in)] $in: ReadStream<$it>,)+
            $(#[rustradio(out)] $out: WriteStream<$ot>,)+
            #[rustradio(default)]
            steps: u64,
            #[rustradio(into)]
            label: String,
            k: u32,
        }
        impl $name {
            #[allow(unused_variables)]
            fn process_sync(&mut self, $($in: $it),+) -> $ret {
                self.steps += 1;
                let _ = (&self.label, self.k);
                let ($a, $b, $c) = sync_block!(@args $($in),+);
                $body
            }
        }
    };
    (@args $x:ident) => { ($x, 0u8, 0.0f32) };
    (@args $x:ident, $y:ident) => { ($x, $y, 0.0f32) };
    (@args $x:ident, $y:ident, $z:ident) => { ($x, $y, $z) };
}

sync_block!(S11; [a: u32]; [o1: u32]; |a, b, c| f1(a, b, c); u32);
sync_block!(S12; [a: u32]; [o1: u32, o2: u64]; |a, b, c| (f1(a, b, c), f2(a, b, c)); (u32, u64));
sync_block!(S13; [a: u32]; [o1: u32, o2: u64, o3: f32]; |a, b, c| (f1(a, b, c), f2(a, b, c), f3(a, b, c)); (u32, u64, f32));
sync_block!(S21; [a: u32, b: u8]; [o1: u32]; |a, b, c| f1(a, b, c); u32);
sync_block!(S22; [a: u32, b: u8]; [o1: u32, o2: u64]; |a, b, c| (f1(a, b, c), f2(a, b, c)); (u32, u64));
sync_block!(S23; [a: u32, b: u8]; [o1: u32, o2: u64, o3: f32]; |a, b, c| (f1(a, b, c), f2(a, b, c), f3(a, b, c)); (u32, u64, f32));
sync_block!(S31; [a: u32, b: u8, c: f32]; [o1: u32]; |a, b, c| f1(a, b, c); u32);
sync_block!(S32; [a: u32, b: u8, c: f32]; [o1: u32, o2: u64]; |a, b, c| (f1(a, b, c), f2(a, b, c)); (u32, u64));
sync_block!(S33; [a: u32, b: u8, c: f32]; [o1: u32, o2: u64, o3: f32]; |a, b, c| (f1(a, b, c), f2(a, b, c), f3(a, b, c)); (u32, u64, f32));

/// sync_tag with two inputs and two outputs: forwards both inputs' tags
/// and adds a marker on samples divisible by 5.
#[derive(rustradio_macros::Block)]
#[rustradio(new, sync_tag)]
pub struct T22 {
    #[rustradio(in)]
    a: ReadStream<u32>,
    #[rustradio(in)]
    b: ReadStream<u8>,
    #[rustradio(out)]
    o1: WriteStream<u32>,
    #[rustradio(out)]
    o2: WriteStream<u64>,
    k: u32,
}
impl T22 {
    fn process_sync_tags<'a>(&mut self, a: u32, at: &'a [Tag], b: u8, bt: &'a [Tag]) -> (u32, u64, Cow<'a, [Tag]>) {
        let _ = self.k;
        let mut t = at.to_vec();
        t.extend(bt.iter().cloned());
        if a % 5 == 0 {
            t.push(Tag::new(0, "five", TagValue::U64(a as u64)));
        }
        (f1(a, b, 0.0), f2(a, b, 0.0), Cow::Owned(t))
    }
}

#[derive(rustradio_macros::Block)]
#[rustradio(new, sync_tag)]
pub struct T11 {
    #[rustradio(in)]
    a: ReadStream<u32>,
    #[rustradio(out)]
    o1: WriteStream<u32>,
    k: u32,
}
impl T11 {
    fn process_sync_tags<'a>(&mut self, a: u32, at: &'a [Tag]) -> (u32, Cow<'a, [Tag]>) {
        let _ = self.k;
        let mut t = at.to_vec();
        if a % 5 == 0 {
            t.push(Tag::new(0, "five", TagValue::U64(a as u64)));
        }
        (f1(a, 0, 0.0), Cow::Owned(t))
    }
}

/// Non-sync block with a packet output declared between two sample outputs:
/// only the generated constructor and eof() are of interest.
#[derive(rustradio_macros::Block)]
#[rustradio(new)]
pub struct Mixed {
    #[rustradio(in)]
    a: ReadStream<u32>,
    #[rustradio(in)]
    b: ReadStream<u8>,
    #[rustradio(out)]
    a_first: WriteStream<u32>,
    #[rustradio(out)]
    b_second: NCWriteStream<Vec<u8>>,
    #[rustradio(out)]
    c_third: WriteStream<u64>,
    // Two outputs of one type whose names (e_ before d_) are not in alphabetical order, while the names of the differently typed ones are: a
    // constructor that hands the read ends back in any other order than the
    // declared one still compiles, and crosses the streams.
    #[rustradio(out)]
    e_zulu: WriteStream<u32>,
    #[rustradio(out)]
    d_alpha: WriteStream<u32>,
    #[rustradio(default)]
    emitted: bool,
}
impl Block for Mixed {
    fn work(&mut self) -> Result<BlockRet> {
        if !self.emitted {
            self.emitted = true;
            let mut o = self.a_first.write_buf()?;
            o.slice()[0] = 111;
            o.produce(1, &[]);
            self.b_second.push(vec![222], &[]);
            let mut o = self.c_third.write_buf()?;
            o.slice()[0] = 333;
            o.produce(1, &[]);
            let mut o = self.e_zulu.write_buf()?;
            o.slice()[0] = 444;
            o.produce(1, &[]);
            let mut o = self.d_alpha.write_buf()?;
            o.slice()[0] = 555;
            o.produce(1, &[]);
        }
        Ok(BlockRet::WaitForStream(&self.a, 1))
    }
}

pub struct DeriveCheck;

const SHAPES: [(&str, usize, usize); 11] = [("S11", 1, 1), ("S12", 1, 2), ("S13", 1, 3), ("S21", 2, 1), ("S22", 2, 2), ("S23", 2, 3), ("S31", 3, 1), ("S32", 3, 2), ("S33", 3, 3), ("T11", 1, 1), ("T22", 2, 2)];

struct Wired {
    case: Case,
    a: Vec<u32>,
    b: Vec<u8>,
    c: Vec<f32>,
    nin: usize,
    nout: usize,
    tagged: bool,
}

fn wire(shape: usize, a: Vec<u32>, b: Vec<u8>, c: Vec<f32>, tags: Vec<TagRec>, tags_b: Vec<TagRec>) -> Wired {
    let (name, nin, nout) = SHAPES[shape];
    let (pa, ra) = StreamIn::new(a.clone(), tags);
    let mut ins: Vec<Box<dyn InPort>> = vec![pa];
    let mut rb = None;
    let mut rc = None;
    if nin >= 2 {
        let (p, r) = StreamIn::new(b.clone(), tags_b);
        ins.push(p);
        rb = Some(r);
    }
    if nin >= 3 {
        let (p, r) = StreamIn::new(c.clone(), vec![]);
        ins.push(p);
        rc = Some(r);
    }
    let label = "lbl"; // exercises the `into` field
    macro_rules! mk {
        ($t:ident, 1, 1) => {{ let (b, o1) = $t::new(ra, label, 7); (Box::new(b) as Box<dyn Block + Send>, vec![StreamOut::new(o1) as Box<dyn OutPort>]) }};
        ($t:ident, 1, 2) => {{ let (b, o1, o2) = $t::new(ra, label, 7); (Box::new(b) as Box<dyn Block + Send>, vec![StreamOut::new(o1) as Box<dyn OutPort>, StreamOut::new(o2)]) }};
        ($t:ident, 1, 3) => {{ let (b, o1, o2, o3) = $t::new(ra, label, 7); (Box::new(b) as Box<dyn Block + Send>, vec![StreamOut::new(o1) as Box<dyn OutPort>, StreamOut::new(o2), StreamOut::new(o3)]) }};
        ($t:ident, 2, 1) => {{ let (b, o1) = $t::new(ra, rb.unwrap(), label, 7); (Box::new(b) as Box<dyn Block + Send>, vec![StreamOut::new(o1) as Box<dyn OutPort>]) }};
        ($t:ident, 2, 2) => {{ let (b, o1, o2) = $t::new(ra, rb.unwrap(), label, 7); (Box::new(b) as Box<dyn Block + Send>, vec![StreamOut::new(o1) as Box<dyn OutPort>, StreamOut::new(o2)]) }};
        ($t:ident, 2, 3) => {{ let (b, o1, o2, o3) = $t::new(ra, rb.unwrap(), label, 7); (Box::new(b) as Box<dyn Block + Send>, vec![StreamOut::new(o1) as Box<dyn OutPort>, StreamOut::new(o2), StreamOut::new(o3)]) }};
        ($t:ident, 3, 1) => {{ let (b, o1) = $t::new(ra, rb.unwrap(), rc.unwrap(), label, 7); (Box::new(b) as Box<dyn Block + Send>, vec![StreamOut::new(o1) as Box<dyn OutPort>]) }};
        ($t:ident, 3, 2) => {{ let (b, o1, o2) = $t::new(ra, rb.unwrap(), rc.unwrap(), label, 7); (Box::new(b) as Box<dyn Block + Send>, vec![StreamOut::new(o1) as Box<dyn OutPort>, StreamOut::new(o2)]) }};
        ($t:ident, 3, 3) => {{ let (b, o1, o2, o3) = $t::new(ra, rb.unwrap(), rc.unwrap(), label, 7); (Box::new(b) as Box<dyn Block + Send>, vec![StreamOut::new(o1) as Box<dyn OutPort>, StreamOut::new(o2), StreamOut::new(o3)]) }};
    }
    let (blk, outs): (Box<dyn Block + Send>, Vec<Box<dyn OutPort>>) = match name {
        "S11" => mk!(S11, 1, 1),
        "S12" => mk!(S12, 1, 2),
        "S13" => mk!(S13, 1, 3),
        "S21" => mk!(S21, 2, 1),
        "S22" => mk!(S22, 2, 2),
        "S23" => mk!(S23, 2, 3),
        "S31" => mk!(S31, 3, 1),
        "S32" => mk!(S32, 3, 2),
        "S33" => mk!(S33, 3, 3),
        "T11" => {
            let (b, o1) = T11::new(ra, 7);
            (Box::new(b), vec![StreamOut::new(o1)])
        }
        _ => {
            let (b, o1, o2) = T22::new(ra, rb.unwrap(), 7);
            (Box::new(b), vec![StreamOut::new(o1), StreamOut::new(o2)])
        }
    };
    let mut case = Case::new(name, format!("{nin} in x {nout} out"), blk);
    case.ins = ins;
    case.outs = outs;
    Wired { case, a, b, c, nin, nout, tagged: name.starts_with('T') }
}

impl Check for DeriveCheck {
    fn id(&self) -> &'static str {
        "C19"
    }
    fn rule(&self) -> String {
        "one run = one harness-defined derive block (sync with 1..3 inputs x 1..3 outputs of mixed element types with default and into fields; sync_tag 1x1 and 2x2; a non-sync block with a packet output declared between two sample outputs) on 1-2 page streams with seeded wrap offsets under a seeded drip-feed schedule with unequal inputs and outputs. \
         Every work() call is checked against the documented contract: steps == min(every input's backlog, every output's free space); exactly that many samples leave every input and reach every output; an empty input (first in declaration order) or else a full output is what the wait names; output values are the zip of the inputs through the block's function; first-input tags appear once at the same index on every output; the generated constructor returns read ends in declaration order; generated eof() is true only when all inputs are dropped and drained. \
         non-trivial = inputs and outputs were uneven at some call; distinct = hash of the decision list".into()
    }
    fn assumptions(&self) -> Vec<String> {
        vec!["the harness blocks are compiled by the same macro crate at /repo/rustradio_macros".into()]
    }
    fn real_vs_stub(&self) -> Value {
        json!({"real": ["rustradio_macros derive expansion (new, sync, sync_tag, eof)", "streams"], "simulated": ["peers and delivery schedule"], "stub": ["the blocks' process functions are harness code"]})
    }
    fn budget(&self, tier: Tier) -> Budget {
        match tier {
            Tier::Quick => Budget { runs: 50000, max_secs: 40.0 },
            Tier::Thorough => Budget { runs: 2_000_000, max_secs: 900.0 },
        }
    }
    fn fixed_cases(&self) -> u64 {
        SHAPES.len() as u64 + 1
    }
    fn required(&self, _tier: Tier) -> Vec<&'static str> {
        vec!["uneven_inputs", "uneven_outputs", "wait_on_empty_input", "wait_on_full_output", "eof_checked", "constructor_order_checked", "clamped_by_output"]
    }
    fn run(&self, src: &mut Src, ctx: &mut RunCtx) -> RunResult {
        let nf = self.fixed_cases();
        let sel = src.draw(nf + 1);
        let shape_sel = if sel < nf { sel as usize } else { src.below(nf as usize) };
        let solo = Solo::new();
        let small = *src.pick(&[4096usize, 4096, 8192]);
        if shape_sel == SHAPES.len() {
            // Constructor order + eof of the non-sync block.
            return solo.with(|| {
                rustradio::verif::set_stream_size(small);
                let (pa, ra) = StreamIn::new(vec![1u32, 2, 3], vec![]);
                let (pb, rb) = StreamIn::new(vec![9u8], vec![]);
                let (mut blk, first, second, third, zulu, alpha): (Mixed, ReadStream<u32>, NCReadStream<Vec<u8>>, ReadStream<u64>, ReadStream<u32>, ReadStream<u32>) = Mixed::new(ra, rb);
                rustradio::verif::set_stream_size(0);
                let _ = blk.work();
                ctx.nontrivial = true;
                ctx.hash.add(0xc19);
                let f = first.read_buf().map(|(b, _)| b.slice().to_vec()).unwrap_or_default();
                let s = second.pop().map(|p| p.0);
                let t = third.read_buf().map(|(b, _)| b.slice().to_vec()).unwrap_or_default();
                let z = zulu.read_buf().map(|(b, _)| b.slice().to_vec()).unwrap_or_default();
                let al = alpha.read_buf().map(|(b, _)| b.slice().to_vec()).unwrap_or_default();
                if f != vec![111] || s != Some(vec![222]) || t != vec![333] || z != vec![444] || al != vec![555] {
                    return ctx.tolerate(Violation::new("C19:constructor-order", format!("generated new() did not return the read ends in declaration order: first={f:?} second={s:?} third={t:?} fourth={z:?} fifth={al:?}")));
                }
                ctx.count("constructor_order_checked");
                // eof(): false while any input is open or holds data.
                use rustradio::block::BlockEOF;
                let mut pa = pa;
                let mut pb = pb;
                if blk.eof() {
                    return ctx.tolerate(Violation::new("C19:eof-early", "generated eof() true while both inputs are open".to_string()));
                }
                pa.close();
                if blk.eof() {
                    return ctx.tolerate(Violation::new("C19:eof-early", "generated eof() true while one input is still open".to_string()));
                }
                pb.feed(1);
                pb.close();
                if blk.eof() {
                    return ctx.tolerate(Violation::new("C19:eof-early", "generated eof() true while a closed input still holds a sample".to_string()));
                }
                ctx.count("eof_checked");
                Ok(())
            });
        }
        let (name, nin, nout) = SHAPES[shape_sel];
        // Unequal input lengths on purpose.
        let cap = small / 8; // smallest capacity among the ports (u64 output)
        let base = match src.below(5) {
            0 => src.range(0, 5),
            1 => cap + src.below(9),
            2 => 3 * cap + src.below(17),
            _ => src.range(1, 2 * cap),
        };
        let la = base;
        let lb = if src.chance(1, 3) { base.saturating_sub(src.below(7)) } else { base + src.below(40) };
        let lc = if src.chance(1, 3) { base.saturating_sub(src.below(7)) } else { base + src.below(40) };
        let a: Vec<u32> = (0..la as u32).map(|i| i.wrapping_mul(2654435761) >> 4).collect();
        let b: Vec<u8> = (0..lb).map(|i| (i * 13 + 1) as u8).collect();
        let c: Vec<f32> = (0..lc).map(|i| i as f32 * 0.25).collect();
        let tags = gen_tags(src, la, cap);
        // Tags on the second input as well: a sync block forwards only the
        // first input's, a sync_tag block hands each input's to the user code
        // (T22 forwards both) - also in windows where the first has none.
        let tags_b = if nin >= 2 { gen_tags(src, lb, cap) } else { vec![] };
        ctx.ev(|| format!("C19 {name} lens {la}/{lb}/{lc} stream {small}"));
        if ctx.sample.is_none() {
            ctx.sample = Some(json!({"block": name, "inputs": nin, "outputs": nout, "input_lengths": [la, lb, lc], "stream_bytes": small}));
        }
        let r = solo.with(|| -> RunResult {
            rustradio::verif::set_stream_size(small);
            let mut w = wire(shape_sel, a, b, c, tags, tags_b);
            rustradio::verif::set_stream_size(0);
            for p in w.case.ins.iter() {
                let cp = p.capacity();
                p.preroll(src.below(cp));
            }
            for p in w.case.outs.iter() {
                let cp = p.capacity();
                p.preroll(src.below(cp));
            }
            let mut actions = 0;
            let mut stalled = 0;
            loop {
                actions += 1;
                if actions > 6000 {
                    ctx.count("rig_action_budget_reached");
                    break;
                }
                let can_feed: Vec<usize> = (0..w.nin).filter(|&i| w.case.ins[i].fed() < w.case.ins[i].total() && w.case.ins[i].space() > 0).collect();
                let can_drain: Vec<usize> = (0..w.nout).filter(|&j| w.case.outs[j].available() > 0).collect();
                let forced = if stalled >= 6 && !can_feed.is_empty() { Some(1) } else if stalled >= 6 && !can_drain.is_empty() { Some(2) } else { None };
                let mut wt = [40u32, 0, 0];
                if !can_feed.is_empty() {
                    wt[1] = 30;
                }
                if !can_drain.is_empty() {
                    wt[2] = 25;
                }
                match forced.unwrap_or_else(|| src.weighted(&wt)) {
                    1 => {
                        let i = *src.pick(&can_feed);
                        let max = w.case.ins[i].space().min(w.case.ins[i].total() - w.case.ins[i].fed());
                        let k = match src.below(4) {
                            0 => 1,
                            1 => src.range(1, 5.min(max)),
                            2 => src.range(1, max),
                            _ => max,
                        };
                        w.case.ins[i].feed(k);
                        stalled = 0;
                        continue;
                    }
                    2 => {
                        let j = *src.pick(&can_drain);
                        let max = w.case.outs[j].available();
                        let k = match src.below(4) {
                            0 => 1,
                            1 => src.range(1, 5.min(max)),
                            2 => src.range(1, max),
                            _ => max,
                        };
                        w.case.outs[j].drain(k);
                        stalled = 0;
                        continue;
                    }
                    _ => {}
                }
                let backlog: Vec<usize> = w.case.ins.iter().map(|p| p.backlog()).collect();
                let free: Vec<usize> = w.case.outs.iter().map(|p| p.capacity() - p.available()).collect();
                if backlog.iter().any(|&x| x != backlog[0]) {
                    ctx.count("uneven_inputs");
                    ctx.nontrivial = true;
                }
                if free.iter().any(|&x| x != free[0]) {
                    ctx.count("uneven_outputs");
                    ctx.nontrivial = true;
                }
                let st = step(&mut w.case, &solo, false);
                ctx.steps += 1;
                let n_in = *backlog.iter().min().unwrap();
                let n_out = *free.iter().min().unwrap();
                let expect_n = n_in.min(n_out);
                ctx.ev(|| format!("work backlog={backlog:?} free={free:?} -> {:?} consumed={:?} produced={:?}", st.verdict, st.consumed, st.produced));
                match &st.verdict {
                    Verdict::Panic(p) => return Err(Violation::new(format!("C19:{name}:panic:{}", p.site), format!("{name}: generated work() panicked with backlog {backlog:?} free {free:?}: {} at {}", p.msg, p.loc))),
                    Verdict::Err(e) => return Err(Violation::new(format!("C19:{name}:err"), format!("{name}: generated work() failed: {e}"))),
                    _ => {}
                }
                if st.live_windows_after != 0 {
                    return Err(Violation::new(format!("C19:{name}:window-leak"), format!("{name}: {} windows live after work()", st.live_windows_after)));
                }
                if let Some(i) = backlog.iter().position(|&x| x == 0) {
                    // Empty input: wait on exactly that stream, nothing moved.
                    ctx.count("wait_on_empty_input");
                    let ok = matches!(&st.verdict, Verdict::WaitStream { id, need, .. } if *id == w.case.ins[i].id() && *need >= 1) && !st.activity;
                    if !ok {
                        return Err(Violation::new(format!("C19:{name}:wait-target"), format!("{name}: input {i} is empty (backlog {backlog:?}, free {free:?}) but work() answered {:?} consumed {:?} produced {:?}", st.verdict, st.consumed, st.produced)));
                    }
                    stalled += 1;
                } else if let Some(j) = free.iter().position(|&x| x == 0) {
                    ctx.count("wait_on_full_output");
                    let ok = matches!(&st.verdict, Verdict::WaitStream { id, need, .. } if *id == w.case.outs[j].id() && *need >= 1) && !st.activity;
                    if !ok {
                        return Err(Violation::new(format!("C19:{name}:wait-target"), format!("{name}: output {j} is full (backlog {backlog:?}, free {free:?}) but work() answered {:?} consumed {:?} produced {:?}", st.verdict, st.consumed, st.produced)));
                    }
                    stalled += 1;
                } else {
                    stalled = 0;
                    if n_out < n_in {
                        ctx.count("clamped_by_output");
                    }
                    if st.consumed.iter().any(|&x| x != expect_n) || st.produced.iter().any(|&x| x != expect_n) {
                        return Err(Violation::new(
                            format!("C19:{name}:step-count"),
                            format!("{name}: backlog {backlog:?}, free {free:?}: expected {expect_n} steps on every stream, consumed {:?} produced {:?}", st.consumed, st.produced),
                        ));
                    }
                    // After a batch: `Again`, or a wait on a stream that the batch
                    // left empty (input) or full (output) — "waits on the stream
                    // that is empty or full". A wait naming a stream that still
                    // has samples / room is misdirected.
                    let ok = match &st.verdict {
                        Verdict::Again => true,
                        Verdict::WaitStream { id, need, .. } if *need >= 1 => {
                            let empty_in = w.case.ins.iter().enumerate().any(|(i, p)| p.id() == *id && backlog[i] == expect_n);
                            let full_out = w.case.outs.iter().enumerate().any(|(j, p)| p.id() == *id && free[j] == expect_n);
                            if empty_in || full_out {
                                ctx.count("wait_verdict_from_a_batch_that_emptied_or_filled_the_stream");
                            }
                            empty_in || full_out
                        }
                        _ => false,
                    };
                    if !ok {
                        return Err(Violation::new(format!("C19:{name}:verdict"), format!("{name}: moved {expect_n} samples (backlog {backlog:?}, free {free:?}) but answered {:?}, which names no stream the batch left empty or full", st.verdict)));
                    }
                }
                let all_fed = w.case.ins.iter().all(|p| p.fed() == p.total());
                if all_fed && stalled >= 3 && w.case.outs.iter().all(|o| o.available() == 0) {
                    break;
                }
            }
            for o in w.case.outs.iter_mut() {
                o.drain(usize::MAX);
            }
            // Values.
            let n = w.case.outs[0].collected();
            let exp1: Vec<u32> = (0..n).map(|i| f1(w.a[i], if w.nin >= 2 { w.b[i] } else { 0 }, if w.nin >= 3 { w.c[i] } else { 0.0 })).collect();
            let exp2: Vec<u64> = (0..n).map(|i| f2(w.a[i], if w.nin >= 2 { w.b[i] } else { 0 }, if w.nin >= 3 { w.c[i] } else { 0.0 })).collect();
            let exp3: Vec<f32> = (0..n).map(|i| f3(w.a[i], if w.nin >= 2 { w.b[i] } else { 0 }, if w.nin >= 3 { w.c[i] } else { 0.0 })).collect();
            if w.case.out_typed::<u32>(0).got != exp1 {
                return Err(Violation::new(format!("C19:{name}:values"), format!("{name}: output 0 is not the zip of the inputs through the block's function ({n} samples)")));
            }
            if w.nout >= 2 && w.case.out_typed::<u64>(1).got[..] != exp2[..w.case.outs[1].collected().min(n)] {
                return Err(Violation::new(format!("C19:{name}:values"), format!("{name}: output 1 is not the zip of the inputs through the block's function")));
            }
            if w.nout >= 3 && w.case.out_typed::<f32>(2).got[..] != exp3[..w.case.outs[2].collected().min(n)] {
                return Err(Violation::new(format!("C19:{name}:values"), format!("{name}: output 2 is not the zip of the inputs through the block's function")));
            }
            if w.case.outs.iter().any(|o| o.collected() != n) {
                return Err(Violation::new(format!("C19:{name}:step-count"), format!("{name}: outputs hold different numbers of samples: {:?}", w.case.outs.iter().map(|o| o.collected()).collect::<Vec<_>>())));
            }
            // Tags: first input's tags (plus the marker for sync_tag) on every output.
            let mut want: Vec<TagRec> = w.case.in_typed::<u32>(0).tags.iter().filter(|t| (t.0 as usize) < n).cloned().collect();
            if w.tagged && w.nin >= 2 {
                want.extend(w.case.in_typed::<u8>(1).tags.iter().filter(|t| (t.0 as usize) < n).cloned());
                if w.case.in_typed::<u8>(1).tags.iter().any(|t| (t.0 as usize) < n) {
                    ctx.count("second_input_tags_forwarded_by_sync_tag");
                }
            }
            if w.tagged {
                for i in 0..n {
                    if w.a[i] % 5 == 0 {
                        want.push((i as u64, "five".into(), TagValue::U64(w.a[i] as u64)));
                    }
                }
            }
            let wantm = tags_to_multiset(&want);
            for (j, o) in w.case.outs.iter().enumerate() {
                let g = tags_to_multiset(o.tags());
                if g != wantm {
                    return Err(Violation::new(format!("C19:{name}:tags"), format!("{name}: output {j} carries {} tags, expected {} (first input's tags at the same index, once)", g.len(), wantm.len())));
                }
            }
            // eof(): only when all inputs are dropped and drained.
            let nin = w.nin;
            for i in 0..nin {
                let st = step(&mut w.case, &solo, true);
                if st.block_eof == Some(true) {
                    return Err(Violation::new(format!("C19:{name}:eof-early"), format!("{name}: generated eof() true with {} of {nin} inputs still open", nin - i)));
                }
                w.case.ins[i].close();
            }
            // Leftover data in a closed input keeps eof() false. A closed port
            // cannot be inspected any more, so compute the leftovers from what
            // was fed and how many steps the block took.
            let st = step(&mut w.case, &solo, true);
            for o in w.case.outs.iter_mut() {
                o.drain(usize::MAX);
            }
            let steps = w.case.outs[0].collected();
            let leftovers: Vec<usize> = w.case.ins.iter().map(|p| p.fed().saturating_sub(steps)).collect();
            let all_empty = leftovers.iter().all(|&l| l == 0);
            if let Some(e) = st.block_eof {
                if e && !all_empty {
                    return Err(Violation::new(format!("C19:{name}:eof-early"), format!("{name}: generated eof() true although closed inputs still hold {leftovers:?} samples")));
                }
                if !e && all_empty {
                    return Err(Violation::new(format!("C19:{name}:eof-late"), format!("{name}: all inputs dropped and drained but generated eof() is false")));
                }
                ctx.count("eof_checked");
            }
            Ok(())
        });
        for v in &src.log {
            ctx.hash.add(*v);
        }
        match r {
            Ok(()) => Ok(()),
            Err(v) => ctx.tolerate(v),
        }
    }
}
