//! Seeded data generators shared by the rig adapters.

use rustradio::Complex;
use rustradio::stream::TagValue;

use crate::rig::TagRec;
use crate::src::Src;

/// Length of an input sequence relative to the small-run capacity `cap`.
pub fn gen_len(src: &mut Src, cap: usize) -> usize {
    match src.below(if crate::engine::deep() { 14 } else { 12 }) {
        12 => 6 * cap + src.below(50),
        13 => src.range(2 * cap, 4 * cap),
        0 => 0,
        1 => 1,
        2 => src.range(2, 9),
        3 => cap - 1,
        4 => cap,
        5 => cap + 1,
        6 => 3 * cap + src.below(17),
        7 | 8 => src.range(1, 2 * cap),
        _ => src.range(1, cap.min(600)),
    }
}

/// Shorter lengths for expensive blocks.
pub fn gen_len_small(src: &mut Src, cap: usize) -> usize {
    match src.below(9) {
        8 => 3 * cap + src.below(17),
        0 => 0,
        1 => 1,
        2 => cap + 1,
        3 => src.range(1, 2 * cap),
        _ => src.range(1, cap.min(400)),
    }
}

pub fn gen_f32(src: &mut Src, specials: bool) -> f32 {
    match src.below(if specials { 12 } else { 8 }) {
        0 => 0.0,
        1 => 1.0,
        2 => -1.0,
        3 => (src.below(2001) as f32 - 1000.0) / 1000.0,
        4 => (src.below(200_001) as f32 - 100_000.0) / 7.0,
        5 => (src.below(41) as f32 - 20.0) * 0.05,
        6 | 7 => (src.below(20001) as f32 - 10000.0) / 10000.0,
        8 => f32::from_bits(src.bits() as u32), // anything incl. NaN payloads
        9 => *src.pick(&[f32::NAN, f32::INFINITY, f32::NEG_INFINITY, -0.0, f32::MIN_POSITIVE, f32::MAX, f32::MIN]),
        10 => 1e-30 * src.below(100) as f32,
        _ => 3.0e38,
    }
}

pub fn gen_f32_vec(src: &mut Src, n: usize, specials: bool) -> Vec<f32> {
    // Pick a style per vector so that structured signals occur too.
    match src.below(5) {
        0 => (0..n).map(|i| ((i as f32) * 0.37).sin()).collect(),
        1 => (0..n).map(|i| if (i / 5) % 2 == 0 { 0.8 } else { -0.8 }).collect(),
        2 => {
            let mut v = vec![0.0; n];
            if n > 0 {
                let p = src.below(n);
                v[p] = 1.0;
            }
            v
        }
        _ => (0..n).map(|_| gen_f32(src, specials)).collect(),
    }
}

/// "Tame" floats: finite, |x| <= 4, for numeric comparisons.
pub fn gen_f32_tame(src: &mut Src, n: usize) -> Vec<f32> {
    match src.below(5) {
        0 => (0..n).map(|i| ((i as f32) * 0.21).sin()).collect(),
        1 => vec![1.0; n],
        2 => {
            let mut v = vec![0.0; n];
            if n > 0 {
                let p = src.below(n.min(40));
                v[p] = 1.0;
            }
            v
        }
        _ => (0..n).map(|_| (src.below(8001) as f32 - 4000.0) / 1000.0).collect(),
    }
}

pub fn gen_complex_tame(src: &mut Src, n: usize) -> Vec<Complex> {
    let re = gen_f32_tame(src, n);
    let im = gen_f32_tame(src, n);
    re.into_iter().zip(im).map(|(a, b)| Complex::new(a, b)).collect()
}

pub fn gen_complex_vec(src: &mut Src, n: usize, specials: bool) -> Vec<Complex> {
    (0..n).map(|_| Complex::new(gen_f32(src, specials), gen_f32(src, specials))).collect()
}

pub fn gen_u8_vec(src: &mut Src, n: usize) -> Vec<u8> {
    match src.below(4) {
        0 => (0..n).map(|i| i as u8).collect(),
        1 => vec![*src.pick(&[0u8, 255, 127, 128]); n],
        _ => (0..n).map(|_| src.below(256) as u8).collect(),
    }
}

pub fn gen_bits(src: &mut Src, n: usize) -> Vec<u8> {
    match src.below(5) {
        0 => vec![0; n],
        1 => vec![1; n],
        2 => (0..n).map(|i| (i % 2) as u8).collect(),
        _ => (0..n).map(|_| src.below(2) as u8).collect(),
    }
}

pub fn gen_u32_vec(src: &mut Src, n: usize) -> Vec<u32> {
    (0..n)
        .map(|_| match src.below(6) {
            0 => 0,
            1 => u32::MAX,
            2 => 1,
            _ => src.bits() as u32,
        })
        .collect()
}

pub fn gen_tagval(src: &mut Src, serial: u64) -> TagValue {
    match src.below(4) {
        0 => TagValue::U64(serial),
        1 => TagValue::Bool(serial % 2 == 0),
        2 => TagValue::Float(serial as f32 * 0.5),
        _ => TagValue::String(format!("v{serial}")),
    }
}

/// Tags at seeded absolute indices: 0..3 per sample, clustered where the
/// drip script is likely to cut (small multiples, capacity edges, ends).
pub fn gen_tags(src: &mut Src, len: usize, cap: usize) -> Vec<TagRec> {
    let mut v = Vec::new();
    if len == 0 {
        return v;
    }
    let n = match src.below(5) {
        0 => 0,
        1 => 1,
        2 => src.range(1, 4),
        3 => src.range(2, 12),
        _ => src.range(0, 30),
    };
    let mut serial = 0u64;
    for _ in 0..n {
        let pos = match src.below(8) {
            0 => 0,
            1 => len - 1,
            2 => src.below(8.min(len)),
            3 => (cap.saturating_sub(1)).min(len - 1),
            4 => cap.min(len - 1),
            5 => (src.range(1, 5) * src.range(1, 17)).min(len - 1),
            _ => src.below(len),
        };
        let per = if src.chance(1, 4) { src.range(2, 3) } else { 1 };
        for _ in 0..per {
            serial += 1;
            let key = match src.below(3) {
                0 => "t".to_string(),
                1 => format!("k{}", serial % 3),
                _ => format!("u{serial}"),
            };
            v.push((pos as u64, key, gen_tagval(src, serial)));
        }
    }
    v.sort_by_key(|t| t.0);
    v
}
