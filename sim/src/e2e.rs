//! C20: end to end. A transmitter model (AX.25/HDLC framing, NRZI, Bell-202
//! AFSK audio or G3RUH-scrambled 2-FSK baseband) feeds the documented receive
//! chains, assembled block for block as in examples/ax25-1200-rx.rs and
//! examples/ax25-9600-rx.rs (the latter with ZeroCrossing clock recovery), on
//! the single-threaded runner and on MTGraph under the baton scheduler.

use std::sync::{Arc, Mutex};

use rustradio::block::Block;
use rustradio::blocks::*;
use rustradio::graph::{Graph, GraphRunner};
use rustradio::mtgraph::MTGraph;
use rustradio::window::WindowType;
use rustradio::{Complex, Float};
use serde_json::{Value, json};

use crate::engine::{Budget, Check, RunCtx, RunResult, Tier, Violation, catch};
use crate::hblocks::CollectorNc;
use crate::hdlc::*;
use crate::rt::{Sched, SchedCfg, Solo, Strategy, abort_violation};
use crate::src::Src;

pub struct E2eCheck;

#[derive(Clone, Debug)]
struct Tx {
    baud9600: bool,
    samp_rate: u32,
    frames: Vec<Vec<u8>>,
    preamble: usize,
    gaps: Vec<usize>,
    phase0: f64,
    timing_offset: f64,
    lead_silence: usize,
    tail: usize,
}

fn gen_tx(src: &mut Src, small: bool) -> Tx {
    let baud9600 = src.coin();
    let samp_rate = if baud9600 { *src.pick(&[50_000u32, 100_000]) } else { *src.pick(&[44_100u32, 48_000, 50_000]) };
    let nframes = if small { src.range(1, 2) } else { src.range(1, 8) };
    let mut frames = Vec::new();
    for k in 0..nframes {
        let len = if small {
            src.range(10, 40)
        } else {
            match src.below(5) {
                0 => 10,
                1 => 300,
                2 => src.range(10, 30),
                _ => src.range(10, 300),
            }
        };
        let mut p: Vec<u8> = match src.below(4) {
            0 => vec![0xff; len],
            1 => (0..len).map(|i| [0x7e, 0xff, 0x3f, 0xfc][i % 4]).collect(),
            _ => (0..len).map(|_| src.below(256) as u8).collect(),
        };
        p[0] = k as u8 + 1; // distinguishable
        p[1] = len as u8;
        frames.push(p);
    }
    let preamble = src.range(20, 100);
    let gaps = (0..nframes).map(|_| src.range(2, 12)).collect();
    Tx {
        baud9600,
        samp_rate,
        frames,
        preamble,
        gaps,
        phase0: src.below(1000) as f64 / 1000.0 * std::f64::consts::TAU,
        timing_offset: src.below(1000) as f64 / 1000.0,
        lead_silence: src.below(200),
        tail: if baud9600 { 30_000 } else { 40_000 },
    }
}

impl Tx {
    fn line_bits(&self) -> Vec<u8> {
        // HDLC bit stream: preamble flags, frames separated by >= 2 flags.
        let mut bits = Vec::new();
        for _ in 0..self.preamble {
            bits.extend(FLAG);
        }
        for (f, gap) in self.frames.iter().zip(&self.gaps) {
            bits.extend(body_bits(f, true));
            for _ in 0..*gap {
                bits.extend(FLAG);
            }
        }
        // G3RUH scrambling (9600 only): s[n] = d[n] ^ s[n-12] ^ s[n-17].
        if self.baud9600 {
            let mut s: Vec<u8> = Vec::with_capacity(bits.len());
            for (n, d) in bits.iter().enumerate() {
                let a = if n >= 12 { s[n - 12] } else { 0 };
                let b = if n >= 17 { s[n - 17] } else { 0 };
                s.push(d ^ a ^ b);
            }
            bits = s;
        }
        // NRZI: a 0 toggles the level, a 1 keeps it.
        let mut level = 1u8;
        bits.iter()
            .map(|b| {
                if *b == 0 {
                    level ^= 1;
                }
                level
            })
            .collect()
    }

    /// Bell-202 AFSK audio: level 1 -> 1200 Hz, level 0 -> 2200 Hz, continuous phase.
    fn afsk(&self) -> Vec<Float> {
        let levels = self.line_bits();
        let sr = self.samp_rate as f64;
        let spb = sr / 1200.0;
        let total = (levels.len() as f64 * spb) as usize;
        let mut out = Vec::with_capacity(self.lead_silence + total + self.tail);
        out.extend(std::iter::repeat_n(0.0, self.lead_silence));
        let mut phase = self.phase0;
        for i in 0..total {
            let t = (i as f64 + self.timing_offset) / spb;
            let l = levels[(t as usize).min(levels.len() - 1)];
            let f = if l == 1 { 1200.0 } else { 2200.0 };
            phase += std::f64::consts::TAU * f / sr;
            if phase > std::f64::consts::TAU {
                phase -= std::f64::consts::TAU;
            }
            out.push((0.5 * phase.sin()) as Float);
        }
        out.extend(std::iter::repeat_n(0.0, self.tail));
        out
    }

    /// 2-FSK complex baseband, +-3 kHz deviation, continuous phase.
    fn fsk(&self) -> Vec<Complex> {
        let levels = self.line_bits();
        let sr = self.samp_rate as f64;
        let spb = sr / 9600.0;
        let total = (levels.len() as f64 * spb) as usize;
        let mut out = Vec::with_capacity(self.lead_silence + total + self.tail);
        out.extend(std::iter::repeat_n(Complex::new(0.0, 0.0), self.lead_silence));
        let mut phase = self.phase0;
        for i in 0..total {
            let t = (i as f64 + self.timing_offset) / spb;
            let l = levels[(t as usize).min(levels.len() - 1)];
            let f = if l == 1 { 3000.0 } else { -3000.0 };
            phase += std::f64::consts::TAU * f / sr;
            if phase > std::f64::consts::PI {
                phase -= std::f64::consts::TAU;
            }
            if phase < -std::f64::consts::PI {
                phase += std::f64::consts::TAU;
            }
            out.push(Complex::new((0.8 * phase.cos()) as Float, (0.8 * phase.sin()) as Float));
        }
        out.extend(std::iter::repeat_n(Complex::new(0.0, 0.0), self.tail));
        out
    }
}

type Frames = Arc<Mutex<Vec<Vec<u8>>>>;

/// The documented receive chain, block for block.
fn build_chain(tx: &Tx) -> (Vec<Box<dyn Block + Send>>, Frames) {
    let mut blocks: Vec<Box<dyn Block + Send>> = Vec::new();
    macro_rules! add {
        ($e:expr) => {{
            let (b, o) = $e;
            blocks.push(Box::new(b));
            o
        }};
    }
    let samp_rate = tx.samp_rate as Float;
    let bits = if !tx.baud9600 {
        // examples/ax25-1200-rx.rs
        let prev = add!(VectorSource::new(tx.afsk()));
        let prev = add!(Hilbert::new(prev, 65, &WindowType::Hamming));
        let prev = add!(QuadratureDemod::new(prev, 1.0));
        let taps = rustradio::fir::low_pass(samp_rate, 1100.0, 100.0, &WindowType::Hamming);
        let prev = add!(FftFilterFloat::new(prev, &taps));
        let center_freq = 1200.0 + (2200.0 - 1200.0) / 2.0;
        let prev = add!(add_const(prev, -center_freq * 2.0 * std::f32::consts::PI / samp_rate));
        let clock_filter = rustradio::iir_filter::IirFilter::new(&[0.5, 0.5]);
        let prev = add!(SymbolSync::new(prev, samp_rate / 1200.0, 0.5, Box::new(rustradio::symbol_sync::TedZeroCrossing::new()), Box::new(clock_filter)));
        let prev = add!(BinarySlicer::new(prev));
        add!(NrziDecode::new(prev))
    } else {
        // examples/ax25-9600-rx.rs with zero-crossing clock recovery.
        let prev = add!(VectorSource::new(tx.fsk()));
        let taps = rustradio::fir::low_pass_complex(samp_rate, 12_500.0, 100.0, &WindowType::Hamming);
        let prev = add!(FftFilter::new(prev, &taps));
        let new_samp_rate = 50_000.0;
        let prev = add!(RationalResampler::new(prev, new_samp_rate as usize, samp_rate as usize).expect("resampler"));
        let prev = add!(QuadratureDemod::new(prev, 1.0));
        let prev = add!(ZeroCrossing::new(prev, new_samp_rate / 9600.0, 0.1));
        let prev = add!(BinarySlicer::new(prev));
        let prev = add!(NrziDecode::new(prev));
        add!(Descrambler::new(prev, 0x21, 0, 16))
    };
    let pk = add!(HdlcDeframer::new(bits, 10, 1500));
    let (c, store) = CollectorNc::new(pk);
    blocks.push(Box::new(c));
    (blocks, store)
}

fn compare(tx: &Tx, got: &[Vec<u8>], runner: &str, ctx: &mut RunCtx) -> RunResult {
    if got == tx.frames.as_slice() {
        return Ok(());
    }
    // One delivered frame that resembles nothing transmitted, everything else
    // exactly right: a 16-bit FCS lets about one in 65536 flag-delimited noise
    // stretches through, and the filters' round-off on the silence after the
    // transmission is such noise (about one run in 40000 here). Tolerated per
    // run, counted, and bounded per batch in finish().
    let strangers: Vec<&Vec<u8>> = got.iter().filter(|g| !tx.frames.contains(g)).collect();
    if strangers.len() == 1 {
        let rest: Vec<Vec<u8>> = got.iter().filter(|g| tx.frames.contains(g)).cloned().collect();
        if rest == tx.frames {
            ctx.count("untransmitted_frame_with_valid_fcs");
            return Ok(());
        }
    }
    let desc = format!(
        "{} baud at {} Hz, {} frames of {:?} bytes, preamble {} flags",
        if tx.baud9600 { 9600 } else { 1200 },
        tx.samp_rate,
        tx.frames.len(),
        tx.frames.iter().map(|f| f.len()).collect::<Vec<_>>(),
        tx.preamble
    );
    let key = if got.len() < tx.frames.len() {
        "C20:frame-lost"
    } else if got.len() > tx.frames.len() {
        "C20:extra-frame"
    } else {
        "C20:frame-differs"
    };
    Err(Violation::new(
        format!("{key}:{}:{runner}", if tx.baud9600 { "9600" } else { "1200" }),
        format!(
            "{runner}: {desc}: {} frames delivered (sizes {:?}), {} transmitted; not transmitted: {:02x?}",
            got.len(),
            got.iter().map(|f| f.len()).collect::<Vec<_>>(),
            tx.frames.len(),
            got.iter().filter(|g| !tx.frames.contains(g)).map(|g| &g[..g.len().min(40)]).collect::<Vec<_>>()
        ),
    ))
}

impl Check for E2eCheck {
    fn id(&self) -> &'static str {
        "C20"
    }
    fn rule(&self) -> String {
        "one run = one transmission: 1..8 frames of 10..300 bytes (random and stuffing-heavy payloads), 20..100 flag preamble, 2..12 flags between frames, seeded start phase and sub-sample symbol timing, as Bell-202 AFSK float audio at 44100/48000/50000 Hz into the chain of examples/ax25-1200-rx.rs, or as G3RUH-scrambled NRZI 2-FSK complex baseband at 50000/100000 Hz into the chain of examples/ax25-9600-rx.rs with ZeroCrossing clock recovery. Executed on Graph (virtual sleep) and, for a seeded subset with short transmissions, on MTGraph with every block thread under the baton scheduler (run-to-block strategy with seeded preemptions and time-out firings, 64 KiB - 1 MiB streams). \
         Oracle: delivered frame list == transmitted frame list, on each runner. non-trivial = every run (each decodes at least one frame through 10+ blocks); distinct = hash of the transmission parameters".into()
    }
    fn assumptions(&self) -> Vec<String> {
        vec![
            "noiseless channel, amplitude 0.5 (audio) / 0.8 (baseband), +-3 kHz deviation for 9600 baud".into(),
            "'zero-crossing clock recovery' = the ZeroCrossing block in place of SymbolSync in the 9600 chain".into(),
            "transmissions end with 30000-40000 samples of silence so that the block filters flush".into(),
            "one untransmitted frame per run is put down to the 16-bit FCS (filter round-off on the silence is noise to the deframer) as long as everything transmitted is delivered in order; more than 2 + runs/4000 such runs in a batch is a violation".into(),
        ]
    }
    fn real_vs_stub(&self) -> Value {
        json!({"real": ["every block of both receive chains, Graph::run, MTGraph::run, streams"], "simulated": ["transmitter and channel", "sleep/clock (Graph)", "threads, locks, time-outs (MTGraph leg)"], "stub": ["source = VectorSource with the synthesised signal; sink = harness packet collector instead of PduWriter"]})
    }
    fn budget(&self, tier: Tier) -> Budget {
        match tier {
            Tier::Quick => Budget { runs: 3000, max_secs: 50.0 },
            Tier::Thorough => Budget { runs: 200_000, max_secs: 1800.0 },
        }
    }
    fn required(&self, _tier: Tier) -> Vec<&'static str> {
        vec!["chain_1200", "chain_9600", "mt_leg", "graph_leg", "frames_decoded"]
    }
    fn finish(&self, _tier: Tier, agg: &mut crate::engine::Agg) -> Vec<Violation> {
        // FCS false accepts are expected at about 1 per 40000 runs; far more
        // than that means frames are being let through unchecked.
        let n = agg.counters.get("untransmitted_frame_with_valid_fcs").copied().unwrap_or(0);
        let bound = 2 + agg.evaluations / 4000;
        if n > bound {
            return vec![Violation::new("C20:untransmitted-frames", format!("{n} runs of {} delivered a frame that was never transmitted (at most {bound} can be put down to the 16-bit FCS)", agg.evaluations))];
        }
        vec![]
    }
    fn run(&self, src: &mut Src, ctx: &mut RunCtx) -> RunResult {
        let mt = src.chance(1, 8);
        let tx = gen_tx(src, mt);
        ctx.nontrivial = true;
        ctx.count(if tx.baud9600 { "chain_9600" } else { "chain_1200" });
        let desc = json!({"baud": if tx.baud9600 {9600} else {1200}, "samp_rate": tx.samp_rate, "frame_sizes": tx.frames.iter().map(|f| f.len()).collect::<Vec<_>>(), "preamble_flags": tx.preamble, "gaps": tx.gaps, "timing_offset": tx.timing_offset, "runner": if mt {"Graph+MTGraph"} else {"Graph"}});
        ctx.ev(|| format!("C20 {desc}"));
        ctx.hash.add_bytes(desc.to_string().as_bytes());
        if ctx.sample.is_none() {
            ctx.sample = Some(desc);
        }
        // Graph leg.
        ctx.count("graph_leg");
        let solo = Solo::new();
        let stream = *src.pick(&[0usize, 1 << 20, 256 << 10]);
        let r = solo.with(|| {
            catch(|| {
                rustradio::verif::set_stream_size(stream);
                let (blocks, store) = build_chain(&tx);
                rustradio::verif::set_stream_size(0);
                let mut g = Graph::new();
                for b in blocks {
                    g.add(b);
                }
                let r = g.run().map_err(|e| e.to_string());
                (r, store.lock().unwrap().clone())
            })
        });
        rustradio::verif::set_stream_size(0);
        let got_graph = match r {
            Err(p) => return ctx.tolerate(Violation::new(format!("C20:graph-panicked:{}", p.site()), format!("Graph::run() panicked: {} at {}", p.msg, p.loc))),
            Ok((Err(e), _)) => return ctx.tolerate(Violation::new("C20:graph-run-err", e)),
            Ok((Ok(()), got)) => got,
        };
        if let Err(v) = compare(&tx, &got_graph, "Graph", ctx) {
            return ctx.tolerate(v);
        }
        ctx.add("frames_decoded", got_graph.len() as u64);
        if !mt {
            return Ok(());
        }
        // MTGraph leg under the scheduler.
        ctx.count("mt_leg");
        let mut cfg = SchedCfg::draw(src, 30_000_000, true);
        cfg.strategy = Strategy::RunToBlock(*src.pick(&[50u32, 200]));
        cfg.stall_steps = 200_000;
        let fair = true;
        // Not below 256 KiB: the chain's FFT filter works in blocks of several
        // thousand samples, and a stream shrunk below a few blocks would
        // deadlock by construction (the shipped streams are 4 MB).
        let mstream = *src.pick(&[256usize << 10, 512 << 10, 1 << 20]);
        let sched = Sched::new(std::mem::replace(src, Src::from_seed(0)), cfg, false);
        let out: Arc<Mutex<Option<(Result<(), String>, Vec<Vec<u8>>)>>> = Arc::new(Mutex::new(None));
        let o2 = out.clone();
        let tx2 = tx.clone();
        let res = sched.run_root(move || {
            rustradio::verif::set_stream_size(mstream);
            let (blocks, store) = build_chain(&tx2);
            rustradio::verif::set_stream_size(0);
            let mut g = MTGraph::new();
            for b in blocks {
                g.add(b);
            }
            let r = match catch(|| g.run()) {
                Ok(r) => r.map_err(|e| e.to_string()),
                Err(p) => Err(format!("RUN-PANICKED {} at {}", p.msg, p.loc)),
            };
            *o2.lock().unwrap() = Some((r, store.lock().unwrap().clone()));
        });
        *src = sched.take_src();
        let g = sched.lock();
        ctx.steps += g.steps;
        ctx.sim_ns += g.clock_ns;
        for (k, v) in &g.counters {
            ctx.add(k, *v);
        }
        if let Some((_, name, msg, loc)) = g.panics.iter().find(|p| p.1 != "root") {
            return Err(Violation::new(format!("C20:block-thread-panicked:{name}"), format!("thread {name} panicked: {msg} at {loc}")));
        }
        if let Err(a) = res {
            return match abort_violation("C20", a, &g, fair) {
                Some(v) => Err(v),
                None => Ok(()),
            };
        }
        drop(g);
        let o = out.lock().unwrap().take();
        match o {
            Some((Ok(()), got)) => {
                if let Err(v) = compare(&tx, &got, "MTGraph", ctx) {
                    return ctx.tolerate(v);
                }
                if got != got_graph {
                    return ctx.tolerate(Violation::new("C20:runners-disagree", "Graph and MTGraph delivered different frame lists".to_string()));
                }
                Ok(())
            }
            Some((Err(e), _)) => ctx.tolerate(Violation::new("C20:mt-run-err", e)),
            None => Err(Violation::new("HARNESS-PANIC no result", "MTGraph leg finished without a result")),
        }
    }
}
