//! Batch driver shared by all checks: seeded runs on worker threads, counters,
//! known findings, minimisation, replay files, evidence.

use std::cell::{Cell, RefCell};
use std::collections::{BTreeMap, HashSet};
use std::sync::Mutex;
use std::sync::atomic::{AtomicBool, AtomicU64, Ordering};
use std::time::Instant;

use serde_json::{Value, json};

use crate::src::{Src, TraceHash, run_seed};

pub const DEFAULT_SEED: u64 = 20260927;

#[derive(Clone, Copy, PartialEq, Eq, Debug)]
pub enum Tier {
    Quick,
    Thorough,
}

#[derive(Clone, Debug)]
pub struct Violation {
    /// Stable class of the violation: used to match known findings and to keep
    /// the minimiser on the same failure.
    pub key: String,
    pub msg: String,
}

impl Violation {
    pub fn new(key: impl Into<String>, msg: impl Into<String>) -> Self {
        Self {
            key: key.into(),
            msg: msg.into(),
        }
    }
}

pub type RunResult = Result<(), Violation>;

/// Per-run collector.
#[derive(Default)]
pub struct RunCtx {
    pub verbose: bool,
    pub trace: Vec<String>,
    pub counters: BTreeMap<String, u64>,
    pub hash: TraceHash,
    pub cells: HashSet<u64>,
    pub nontrivial: bool,
    pub sim_ns: u64,
    pub steps: u64,
    pub sample: Option<Value>,
    /// Known-finding keys (so a scenario can steer around a known defect after
    /// reporting it once per batch). Never used to hide an unlisted violation.
    pub known: Vec<String>,
    /// Known findings met and tolerated inside this run (the run went on).
    pub known_hits: Vec<(String, String)>,
}

impl RunCtx {
    pub fn count(&mut self, k: &str) {
        self.add(k, 1);
    }
    pub fn add(&mut self, k: &str, n: u64) {
        if n == 0 {
            return;
        }
        if let Some(v) = self.counters.get_mut(k) {
            *v += n;
        } else {
            self.counters.insert(k.to_string(), n);
        }
    }
    pub fn ev<F: FnOnce() -> String>(&mut self, f: F) {
        if self.verbose && self.trace.len() < 20_000 {
            self.trace.push(f());
        }
    }
    pub fn cell(&mut self, parts: &[u64]) {
        let mut h = TraceHash::default();
        for p in parts {
            h.add(*p);
        }
        self.cells.insert(h.0);
    }
    /// Either tolerate a violation whose key is a listed known finding (and go
    /// on with the run), or return it.
    pub fn tolerate(&mut self, v: Violation) -> RunResult {
        if self.known.iter().any(|k| *k == v.key) {
            self.known_hits.push((v.key, v.msg));
            Ok(())
        } else {
            Err(v)
        }
    }
    pub fn is_known(&self, key: &str) -> bool {
        self.known.iter().any(|k| k == key)
    }
}

/// Process-wide depth switch: set once before the first run (from the tier of
/// a batch, or from the `tier` recorded in a replay file). In the thorough
/// tier scenarios may draw larger bounds (more operations, bigger graphs,
/// longer inputs); the draw sequence of a run is a function of (choices, deep).
static DEEP: std::sync::atomic::AtomicBool = std::sync::atomic::AtomicBool::new(false);
pub fn set_deep(d: bool) {
    DEEP.store(d, Ordering::SeqCst);
}
pub fn deep() -> bool {
    DEEP.load(Ordering::Relaxed)
}

pub struct Budget {
    pub runs: u64,
    pub max_secs: f64,
}

pub trait Check: Sync + Send {
    fn id(&self) -> &'static str;
    fn level(&self) -> &'static str {
        "exploration"
    }
    fn rule(&self) -> String;
    fn assumptions(&self) -> Vec<String>;
    fn real_vs_stub(&self) -> Value;
    fn budget(&self, tier: Tier) -> Budget;
    /// Number of enumerated cases run before the random ones (first draw).
    fn fixed_cases(&self) -> u64 {
        0
    }
    /// Probes/fault counters that must be non-zero in a batch (self-test of
    /// reach; failing it is a harness error, exit 2, not a violation).
    fn required(&self, _tier: Tier) -> Vec<&'static str> {
        vec![]
    }
    fn run(&self, src: &mut Src, ctx: &mut RunCtx) -> RunResult;
    /// Fixed number of worker threads (e.g. 1 when process-wide counts matter).
    fn workers(&self) -> Option<usize> {
        None
    }
    /// Once per batch, after the runs (for checks with a non-sampled part).
    fn finish(&self, _tier: Tier, _agg: &mut Agg) -> Vec<Violation> {
        vec![]
    }
}

// ---------------------------------------------------------------------------
// Panic capture.

thread_local! {
    static QUIET: Cell<bool> = const { Cell::new(false) };
    static LAST_PANIC: RefCell<Option<(String, String)>> = const { RefCell::new(None) };
}

pub fn install_panic_hook() {
    let default = std::panic::take_hook();
    std::panic::set_hook(Box::new(move |info| {
        let msg = if let Some(s) = info.payload().downcast_ref::<&str>() {
            s.to_string()
        } else if let Some(s) = info.payload().downcast_ref::<String>() {
            s.clone()
        } else if info.payload().downcast_ref::<crate::rt::SimAbort>().is_some() {
            "<SimAbort>".to_string()
        } else {
            "<non-string panic>".to_string()
        };
        let loc = info
            .location()
            .map(|l| format!("{}:{}", l.file(), l.line()))
            .unwrap_or_default();
        let quiet = QUIET.try_with(|q| q.get()).unwrap_or(false) || msg == "<SimAbort>";
        if msg != "<SimAbort>" {
            let _ = LAST_PANIC.try_with(|p| {
                let mut p = p.borrow_mut();
                if p.is_none() {
                    *p = Some((msg.clone(), loc.clone()));
                }
            });
            crate::rt::note_panic(&msg, &loc);
        }
        if !quiet {
            default(info);
        }
    }));
}

pub fn set_quiet(q: bool) {
    QUIET.with(|c| c.set(q));
}

#[derive(Debug, Clone)]
pub struct Panicked {
    pub msg: String,
    pub loc: String,
}

impl Panicked {
    /// Location with the /repo prefix and line number reduced to file + the
    /// first words of the message: stable enough for a key.
    pub fn site(&self) -> String {
        let f = self.loc.rsplit('/').next().unwrap_or(&self.loc);
        let f = f.split(':').next().unwrap_or(f);
        let m: String = self
            .msg
            .chars()
            .map(|c| if c.is_ascii_digit() { '#' } else { c })
            .collect();
        let mut m2 = String::new();
        let mut prev_hash = false;
        for c in m.chars() {
            if c == '#' {
                if !prev_hash {
                    m2.push('#');
                }
                prev_hash = true;
            } else {
                prev_hash = false;
                m2.push(c);
            }
        }
        let m2: String = m2.chars().take(60).collect();
        format!("{f}:{m2}")
    }
}

/// Run `f`, converting a panic into `Err` with message and location.
pub fn catch<R>(f: impl FnOnce() -> R) -> Result<R, Panicked> {
    LAST_PANIC.with(|p| *p.borrow_mut() = None);
    let prev = QUIET.with(|q| q.replace(true));
    let r = std::panic::catch_unwind(std::panic::AssertUnwindSafe(f));
    QUIET.with(|q| q.set(prev));
    match r {
        Ok(v) => Ok(v),
        Err(_) => {
            let (msg, loc) = LAST_PANIC
                .with(|p| p.borrow_mut().take())
                .unwrap_or(("<unknown panic>".into(), String::new()));
            Err(Panicked { msg, loc })
        }
    }
}

// ---------------------------------------------------------------------------
// Aggregation.

#[derive(Default)]
pub struct Agg {
    pub evaluations: u64,
    pub counters: BTreeMap<String, u64>,
    pub traces: HashSet<u64>,
    pub nontrivial_traces: HashSet<u64>,
    pub cells: HashSet<u64>,
    pub sim_ns: u128,
    pub steps: u64,
    pub draws: u64,
    pub samples: Vec<Value>,
    pub known_hits: BTreeMap<String, (u64, String)>,
    pub violations: Vec<(u64, Vec<u64>, Violation)>,
    pub extra: BTreeMap<String, Value>,
}

impl Agg {
    fn merge(&mut self, o: Agg) {
        self.evaluations += o.evaluations;
        for (k, v) in o.counters {
            *self.counters.entry(k).or_default() += v;
        }
        self.traces.extend(o.traces);
        self.nontrivial_traces.extend(o.nontrivial_traces);
        self.cells.extend(o.cells);
        self.sim_ns += o.sim_ns;
        self.steps += o.steps;
        self.draws += o.draws;
        self.samples.extend(o.samples);
        for (k, (n, m)) in o.known_hits {
            let e = self.known_hits.entry(k).or_insert((0, m));
            e.0 += n;
        }
        self.violations.extend(o.violations);
    }
}

pub struct Known {
    pub findings: Vec<(String, String, String)>, // property, key, what
    /// Recorded history of a finding: (property, key, choices, thorough tier).
    pub histories: Vec<(String, String, Vec<u64>, bool)>,
}

impl Known {
    pub fn load() -> Self {
        let path = verif_dir().join("known_findings.json");
        let mut findings = Vec::new();
        let mut histories = Vec::new();
        if let Ok(s) = std::fs::read_to_string(&path) {
            let v: Value = match serde_json::from_str(&s) {
                Ok(v) => v,
                Err(e) => {
                    eprintln!("harness error: cannot parse {}: {e}", path.display());
                    std::process::exit(2);
                }
            };
            if let Some(a) = v.get("findings").and_then(|f| f.as_array()) {
                for f in a {
                    findings.push((
                        f["property"].as_str().unwrap_or("").to_string(),
                        f["key"].as_str().unwrap_or("").to_string(),
                        f["what"].as_str().unwrap_or("").to_string(),
                    ));
                    if let Some(c) = f["history"]["choices"].as_array() {
                        histories.push((
                            f["property"].as_str().unwrap_or("").to_string(),
                            f["key"].as_str().unwrap_or("").to_string(),
                            c.iter().filter_map(|x| x.as_u64()).collect(),
                            f["history"]["tier"].as_str() == Some("thorough"),
                        ));
                    }
                }
            }
        }
        Self { findings, histories }
    }
    pub fn keys_for(&self, prop: &str) -> Vec<String> {
        self.findings
            .iter()
            .filter(|f| f.0 == prop)
            .map(|f| f.1.clone())
            .collect()
    }
    pub fn what(&self, prop: &str, key: &str) -> Option<&str> {
        self.findings
            .iter()
            .find(|f| f.0 == prop && f.1 == key)
            .map(|f| f.2.as_str())
    }
}

pub fn verif_dir() -> std::path::PathBuf {
    std::env::var("VERIF_DIR")
        .map(std::path::PathBuf::from)
        .unwrap_or_else(|_| std::path::PathBuf::from("/verif"))
}

/// Execute one run from a prepared source.
pub fn run_one(
    check: &dyn Check,
    src: &mut Src,
    verbose: bool,
    known: &[String],
) -> (RunCtx, RunResult) {
    let mut ctx = RunCtx {
        verbose,
        known: known.to_vec(),
        ..Default::default()
    };
    let r = match catch(|| check.run(src, &mut ctx)) {
        Ok(r) => r,
        Err(p) => {
            if p.loc.contains("/repo/") || p.loc.starts_with("src/") {
                // Unwinding out of rustradio code that no scenario-level guard
                // classified more precisely.
                Err(Violation::new(
                    format!("{}:panic:{}", check.id(), p.site()),
                    format!("rustradio panicked: {} at {}", p.msg, p.loc),
                ))
            } else {
                // A panic in the harness itself is a harness error.
                Err(Violation::new(
                    format!("HARNESS-PANIC {}", p.site()),
                    format!("panic in the harness: {} at {}", p.msg, p.loc),
                ))
            }
        }
    };
    (ctx, r)
}

/// Wall-clock bound on a single run (quick runs take milliseconds to about a
/// minute for a graph that uses up its whole step budget). Beyond it the run is
/// taken to hang inside the code under test.
fn hang_secs(tier: Tier) -> f64 {
    std::env::var("VERIF_HANG_SECS").ok().and_then(|s| s.parse().ok()).unwrap_or(match tier {
        Tier::Quick => 900.0,
        Tier::Thorough => 2400.0,
    })
}

/// A run that does not come back: report it (replayable by seed and run index:
/// the decisions are regenerated, the run itself cannot hand them over) and
/// leave the process, since the stuck thread cannot be stopped.
fn report_hang(check: &dyn Check, tier: Tier, seed: u64, i: u64, secs: f64) -> ! {
    let key = format!("{}:hung", check.id());
    let msg = format!("run {i} had not returned after {secs:.0} s of wall-clock time: a call into the code under test neither returns nor reaches a scheduling point (endless loop or wait inside one call)");
    let dir = verif_dir().join("replays");
    let _ = std::fs::create_dir_all(&dir);
    let path = dir.join(format!("{}-{}-{}.json", check.id(), seed, i));
    let doc = json!({"property": check.id(), "seed": seed, "run": i.to_string(), "key": key, "message": msg,
        "choices": [], "regenerate": {"seed": seed, "run": i}, "tier": if tier == Tier::Thorough { "thorough" } else { "quick" },
        "how_to_replay": format!("./vcheck replay {}", path.display())});
    let _ = std::fs::write(&path, serde_json::to_string_pretty(&doc).unwrap());
    println!("violation: run={i} key={key} :: {msg}");
    println!("VIOLATION property={} replay={}", check.id(), path.display());
    use std::io::Write;
    let _ = std::io::stdout().flush();
    std::process::exit(1);
}

fn src_for(check: &dyn Check, seed: u64, i: u64) -> Src {
    // Mix the property id in, so that checks sharing an engine explore
    // different runs under the same VERIF_SEED.
    let mut h = crate::src::TraceHash::default();
    h.add_bytes(check.id().as_bytes());
    let mut s = Src::from_seed(run_seed(seed ^ h.0, i));
    let f = check.fixed_cases();
    if f > 0 {
        s.prefix = vec![i.min(f)];
    }
    s
}

pub fn run_check(check: &dyn Check, tier: Tier, seed: u64, runs_override: Option<u64>) -> i32 {
    let t0 = Instant::now();
    let known = Known::load();
    let known_keys = known.keys_for(check.id());
    set_deep(tier == Tier::Thorough);
    let budget = check.budget(tier);
    let fixed = check.fixed_cases();
    let total_runs = runs_override.unwrap_or(budget.runs) + fixed;
    let max_secs = std::env::var("VERIF_MAX_SECS")
        .ok()
        .and_then(|s| s.parse().ok())
        .unwrap_or(budget.max_secs);
    let nthreads: usize = check.workers().or_else(|| std::env::var("VERIF_WORKERS")
        .ok()
        .and_then(|s| s.parse().ok()))
        .unwrap_or_else(|| {
            std::thread::available_parallelism()
                .map(|n| n.get())
                .unwrap_or(4)
        });
    println!(
        "vsim: property={} tier={:?} seed={} runs={} (fixed {}) workers={} max_secs={}",
        check.id(),
        tier,
        seed,
        total_runs,
        fixed,
        nthreads,
        max_secs
    );
    let next = AtomicU64::new(0);
    let stop = AtomicBool::new(false);
    let agg = Mutex::new(Agg::default());
    let max_viol: usize = std::env::var("VERIF_MAX_VIOL").ok().and_then(|s| s.parse().ok()).unwrap_or(3);
    // The recorded history of each listed finding is run first, so that a
    // listed finding is met (and reported) in every batch, whatever the seed.
    for (p, key, choices, thorough) in &known.histories {
        if p != check.id() {
            continue;
        }
        set_deep(*thorough);
        set_quiet(true);
        let mut src = Src::from_choices(choices.clone());
        let (ctx, r) = run_one(check, &mut src, false, &known_keys);
        set_quiet(false);
        let mut met = ctx.known_hits.iter().any(|(k, _)| k == key);
        if let Err(v) = &r {
            met |= v.key == *key;
        }
        let mut a = agg.lock().unwrap();
        if met {
            let msg = ctx.known_hits.iter().find(|(k, _)| k == key).map(|(_, m)| m.clone()).unwrap_or_default();
            a.known_hits.entry(key.clone()).or_insert((0, msg)).0 += 1;
        } else {
            a.extra.insert(format!("known_history_not_reproduced:{key}"), json!(true));
        }
    }
    set_deep(tier == Tier::Thorough);
    let survey = std::env::var("VERIF_SURVEY").is_ok();
    let nviol = AtomicU64::new(0);
    // Runs in flight (run index, start), one slot per worker, for the watchdog:
    // a block that loops or blocks for ever inside one call has no scheduling
    // point at which the simulator could stop it, and the run never returns.
    let in_flight: Mutex<Vec<Option<(u64, Instant)>>> = Mutex::new(vec![None; nthreads]);
    let active = AtomicU64::new(nthreads as u64);
    let hang_secs = hang_secs(tier);
    std::thread::scope(|sc| {
        sc.spawn(|| {
            while active.load(Ordering::SeqCst) > 0 {
                std::thread::sleep(std::time::Duration::from_millis(250));
                let hung = in_flight.lock().unwrap().iter().flatten().find(|(_, t)| t.elapsed().as_secs_f64() > hang_secs).cloned();
                if let Some((i, t)) = hung {
                    report_hang(check, tier, seed, i, t.elapsed().as_secs_f64());
                }
            }
        });
        for w in 0..nthreads {
            let (in_flight, active) = (&in_flight, &active);
            let (stop, next, agg, nviol, known_keys) = (&stop, &next, &agg, &nviol, &known_keys);
            sc.spawn(move || {
                set_quiet(true);
                let mut local = Agg::default();
                struct Done<'a>(&'a AtomicU64);
                impl Drop for Done<'_> {
                    fn drop(&mut self) {
                        self.0.fetch_sub(1, Ordering::SeqCst);
                    }
                }
                let _done = Done(active);
                loop {
                    if stop.load(Ordering::Relaxed) {
                        break;
                    }
                    let i = next.fetch_add(1, Ordering::Relaxed);
                    if i >= total_runs {
                        break;
                    }
                    if i >= fixed && t0.elapsed().as_secs_f64() > max_secs {
                        break;
                    }
                    let mut src = src_for(check, seed, i);
                    in_flight.lock().unwrap()[w] = Some((i, Instant::now()));
                    let (ctx, r) = run_one(check, &mut src, false, known_keys);
                    in_flight.lock().unwrap()[w] = None;
                    local.evaluations += 1;
                    for (k, v) in ctx.counters {
                        *local.counters.entry(k).or_default() += v;
                    }
                    local.traces.insert(ctx.hash.0);
                    if ctx.nontrivial {
                        local.nontrivial_traces.insert(ctx.hash.0);
                    }
                    local.cells.extend(ctx.cells);
                    local.sim_ns += ctx.sim_ns as u128;
                    local.steps += ctx.steps;
                    local.draws += src.log.len() as u64;
                    if let Some(s) = ctx.sample {
                        if local.samples.len() < 2 {
                            local.samples.push(s);
                        }
                    }
                    for (k, m) in ctx.known_hits {
                        let e = local.known_hits.entry(k).or_insert((0, m));
                        e.0 += 1;
                    }
                    if let Err(v) = r {
                        if known_keys.iter().any(|k| *k == v.key) {
                            let e = local
                                .known_hits
                                .entry(v.key.clone())
                                .or_insert((0, v.msg.clone()));
                            e.0 += 1;
                        } else {
                            local.violations.push((i, src.log.clone(), v));
                            if nviol.fetch_add(1, Ordering::Relaxed) + 1 >= max_viol as u64 {
                                stop.store(true, Ordering::Relaxed);
                            }
                        }
                    }
                }
                agg.lock().unwrap().merge(local);
            });
        }
    });
    let mut agg = agg.into_inner().unwrap();
    for v in check.finish(tier, &mut agg) {
        if known_keys.iter().any(|k| *k == v.key) {
            let e = agg.known_hits.entry(v.key.clone()).or_insert((0, v.msg));
            e.0 += 1;
        } else {
            agg.violations.push((u64::MAX, vec![], v));
        }
    }
    agg.violations.sort_by_key(|v| v.0);
    let wall = t0.elapsed().as_secs_f64();

    // Known findings: one line each.
    for (k, (n, m)) in &agg.known_hits {
        println!(
            "KNOWN-FINDING: property={} {} [{}; met in {} runs; e.g. {}]",
            check.id(),
            known.what(check.id(), k).unwrap_or(""),
            k,
            n,
            m.replace('\n', " ")
        );
    }

    if let Some((i, _, v)) = agg.violations.iter().find(|v| v.2.key.starts_with("HARNESS-PANIC")) {
        eprintln!("harness error: run {} of {}: {} :: {}", i, check.id(), v.key, v.msg);
        return 2;
    }
    // Violations: minimise, persist, confirm in a fresh process.
    let mut exit = 0;
    let mut seen_keys: Vec<String> = Vec::new();
    let mut replay_paths = Vec::new();
    for (i, choices, v) in &agg.violations {
        exit = 1;
        if seen_keys.contains(&v.key) {
            continue;
        }
        seen_keys.push(v.key.clone());
        if survey {
            println!("survey: run={} key={} :: {}", i, v.key, v.msg.replace('\n', " | "));
            continue;
        }
        if std::env::var("VERIF_KEEP_ORIG").is_ok() && *i != u64::MAX {
            // Triage aid: the unminimised choice list, replayable as is.
            let dir = verif_dir().join("replays");
            let _ = std::fs::create_dir_all(&dir);
            let path = dir.join(format!("{}-{}-{}.orig.json", check.id(), seed, i));
            let doc = json!({"property": check.id(), "seed": seed, "run": i.to_string(), "key": v.key, "message": v.msg,
                "choices": choices, "tier": if deep() { "thorough" } else { "quick" }});
            let _ = std::fs::write(&path, serde_json::to_string(&doc).unwrap());
        }
        let (min_choices, min_v) = if *i == u64::MAX {
            (choices.clone(), v.clone())
        } else {
            minimise(check, choices, v, &known_keys, 25.0)
        };
        let path = write_replay(check, seed, *i, &min_choices, &min_v, choices.len(), &known_keys);
        if choices.is_empty() && *i != u64::MAX {
            // The run unwound before its decisions could be handed back (a
            // panic on a scheduler-managed thread): replay by seed and run
            // index instead, the decisions are regenerated.
            if let Ok(text) = std::fs::read_to_string(&path) {
                if let Ok(mut doc) = serde_json::from_str::<Value>(&text) {
                    doc["regenerate"] = json!({"seed": seed, "run": i});
                    let _ = std::fs::write(&path, serde_json::to_string_pretty(&doc).unwrap());
                }
            }
        }
        let confirmed = if *i == u64::MAX {
            true
        } else {
            confirm_replay(&path, &min_v.key)
        };
        println!(
            "violation: run={} key={} choices {}→{} confirmed_in_fresh_process={} :: {}",
            i,
            min_v.key,
            choices.len(),
            min_choices.len(),
            confirmed,
            min_v.msg.replace('\n', " | ")
        );
        if !confirmed {
            eprintln!(
                "harness error: replay of {} did not reproduce the violation in a fresh process",
                path
            );
            write_evidence(check, tier, seed, &agg, wall, &known);
            return 2;
        }
        println!("VIOLATION property={} replay={}", check.id(), path);
        replay_paths.push(path);
    }

    let gaps: Vec<String> = check
        .required(tier)
        .into_iter()
        .filter(|k| agg.counters.get(*k).copied().unwrap_or(0) == 0)
        .map(|s| s.to_string())
        .collect();
    agg.extra.insert("reach_gaps".into(), serde_json::json!(gaps));
    write_evidence(check, tier, seed, &agg, wall, &known);

    if exit == 0 {
        let missing: Vec<&str> = check
            .required(tier)
            .into_iter()
            .filter(|k| agg.counters.get(*k).copied().unwrap_or(0) == 0)
            .collect();
        if !missing.is_empty() {
            // Reach self-test: a probe stuck at zero means the workload or
            // fault mix should change. It says nothing about the property,
            // so it is reported, not turned into an exit code (unless asked).
            println!("reach-warning: property={} probes never hit in this batch: {:?}", check.id(), missing);
            if std::env::var("VERIF_STRICT_REACH").is_ok() && runs_override.is_none() {
                eprintln!("harness error: required probes never hit: {:?} (reach self-test)", missing);
                return 2;
            }
        }
        println!(
            "ok: property={} evaluations={} distinct_nontrivial={} wall={:.1}s",
            check.id(),
            agg.evaluations,
            agg.nontrivial_traces.len(),
            wall
        );
    }
    exit
}

fn write_evidence(check: &dyn Check, tier: Tier, seed: u64, agg: &Agg, wall: f64, known: &Known) {
    // VERIF_EVIDENCE_DIR: used by tools/seeded.sh so that runs against a
    // deliberately broken tree do not overwrite the evidence of the real one.
    let dir = std::env::var("VERIF_EVIDENCE_DIR").map(std::path::PathBuf::from).unwrap_or_else(|_| verif_dir().join("evidence"));
    let _ = std::fs::create_dir_all(&dir);
    let (faults, probes): (BTreeMap<_, _>, BTreeMap<_, _>) = {
        let mut f = BTreeMap::new();
        let mut p = BTreeMap::new();
        for (k, v) in &agg.counters {
            if let Some(r) = k.strip_prefix("fault:") {
                f.insert(r.to_string(), *v);
            } else {
                p.insert(k.clone(), *v);
            }
        }
        (f, p)
    };
    let known_list: Vec<Value> = agg
        .known_hits
        .iter()
        .map(|(k, (n, _))| json!({"key": k, "runs": n, "what": known.what(check.id(), k)}))
        .collect();
    let mut coverage = json!({
        "evaluations": agg.evaluations,
        "distinct_nontrivial": agg.nontrivial_traces.len(),
        "rule": check.rule(),
        "samples": agg.samples.iter().take(5).collect::<Vec<_>>(),
        "distinct_traces": agg.traces.len(),
        "distinct_abstract_states": agg.cells.len(),
        "faults_fired": faults,
        "probes_hit": probes,
        "scheduler_steps": agg.steps,
        "decisions_drawn": agg.draws,
        "simulated_time_s": (agg.sim_ns as f64) / 1e9,
        "runs_per_hour": if wall > 0.0 { (agg.evaluations as f64 / wall * 3600.0) as u64 } else { 0 },
        "real_vs_stub": check.real_vs_stub(),
        "known_findings_met": known_list,
    });
    for (k, v) in &agg.extra {
        coverage[k] = v.clone();
    }
    let ev = json!({
        "property_id": check.id(),
        "tier": if tier == Tier::Quick { "quick" } else { "thorough" },
        "seed": seed,
        "level": check.level(),
        "coverage": coverage,
        "assumptions": check.assumptions(),
        "wall_s": wall,
        "violations": agg.violations.len(),
    });
    // A build flavour (e.g. the AVX build of C11) writes next to the main file.
    let stem = match std::env::var("VSIM_FLAVOUR") {
        Ok(f) if !f.is_empty() => format!("{}.{}", check.id(), f),
        _ => check.id().to_string(),
    };
    let path = dir.join(format!("{stem}.json"));
    let tmp = dir.join(format!(".{stem}.json.tmp"));
    if std::fs::write(&tmp, serde_json::to_string_pretty(&ev).unwrap()).is_err()
        || std::fs::rename(&tmp, &path).is_err()
    {
        eprintln!("harness error: cannot write evidence {}", path.display());
        std::process::exit(2);
    }
}

fn write_replay(
    check: &dyn Check,
    seed: u64,
    run: u64,
    choices: &[u64],
    v: &Violation,
    orig_len: usize,
    known: &[String],
) -> String {
    let dir = verif_dir().join("replays");
    let _ = std::fs::create_dir_all(&dir);
    // Re-run verbosely to get a readable trace of the minimised case.
    let mut src = Src::from_choices(choices.to_vec());
    let (ctx, r) = if run == u64::MAX {
        (RunCtx::default(), Err(v.clone()))
    } else {
        run_one(check, &mut src, true, known)
    };
    let run_s = if run == u64::MAX {
        "fixed".to_string()
    } else {
        run.to_string()
    };
    let path = dir.join(format!("{}-{}-{}.json", check.id(), seed, run_s));
    let doc = json!({
        "property": check.id(),
        "seed": seed,
        "run": run_s,
        "key": v.key,
        "message": v.msg,
        "choices": choices,
        "tier": if deep() { "thorough" } else { "quick" },
        "original_choice_count": orig_len,
        "scenario": ctx.sample,
        "trace": ctx.trace,
        "replayed_result": match r { Ok(()) => Value::Null, Err(e) => json!({"key": e.key, "msg": e.msg}) },
        "how_to_replay": format!("./vcheck replay {}", path.display()),
    });
    if std::fs::write(&path, serde_json::to_string_pretty(&doc).unwrap()).is_err() {
        eprintln!("harness error: cannot write replay {}", path.display());
        std::process::exit(2);
    }
    path.display().to_string()
}

fn confirm_replay(path: &str, key: &str) -> bool {
    let exe = match std::env::current_exe() {
        Ok(e) => e,
        Err(_) => return false,
    };
    let out = std::process::Command::new(exe)
        .arg("replay")
        .arg(path)
        .arg("--quiet")
        .output();
    match out {
        Ok(o) => {
            let s = String::from_utf8_lossy(&o.stdout);
            o.status.code() == Some(1) && s.contains(&format!("key={key}"))
        }
        Err(_) => false,
    }
}

/// Replay a file. Exit 1 and `VIOLATION` line if it reproduces.
pub fn replay_file(checks: &[Box<dyn Check>], path: &str, quiet: bool) -> i32 {
    let s = match std::fs::read_to_string(path) {
        Ok(s) => s,
        Err(e) => {
            eprintln!("harness error: cannot read {path}: {e}");
            return 2;
        }
    };
    let v: Value = match serde_json::from_str(&s) {
        Ok(v) => v,
        Err(e) => {
            eprintln!("harness error: cannot parse {path}: {e}");
            return 2;
        }
    };
    let prop = v["property"].as_str().unwrap_or("");
    let Some(check) = checks.iter().find(|c| c.id() == prop) else {
        eprintln!("harness error: unknown property {prop}");
        return 2;
    };
    let choices: Vec<u64> = v["choices"]
        .as_array()
        .map(|a| a.iter().filter_map(|x| x.as_u64()).collect())
        .unwrap_or_default();
    set_quiet(true);
    set_deep(v["tier"].as_str() == Some("thorough"));
    let known = Known::load().keys_for(prop);
    let regen = v["regenerate"].as_object().map(|o| (o["seed"].as_u64().unwrap_or(0), o["run"].as_u64().unwrap_or(0)));
    let mut src = match regen {
        Some((seed, run)) => src_for(check.as_ref(), seed, run),
        None => Src::from_choices(choices),
    };
    // Same watchdog as in a batch: a replayed hang is reported, not waited for.
    let tier = if deep() { Tier::Thorough } else { Tier::Quick };
    let limit = hang_secs(tier);
    let started = Instant::now();
    let finished = std::sync::Arc::new(AtomicBool::new(false));
    {
        let (finished, prop, path) = (finished.clone(), prop.to_string(), path.to_string());
        std::thread::spawn(move || {
            while !finished.load(Ordering::SeqCst) {
                std::thread::sleep(std::time::Duration::from_millis(250));
                if started.elapsed().as_secs_f64() > limit {
                    println!("replay: property={prop} key={prop}:hung :: the run had not returned after {limit:.0} s");
                    println!("VIOLATION property={prop} replay={path}");
                    use std::io::Write;
                    let _ = std::io::stdout().flush();
                    std::process::exit(1);
                }
            }
        });
    }
    let (ctx, r) = run_one(check.as_ref(), &mut src, !quiet, &known);
    finished.store(true, Ordering::SeqCst);
    if !quiet {
        for l in &ctx.trace {
            println!("  {l}");
        }
    }
    match r {
        Ok(()) => {
            println!("replay: property={prop} no violation");
            0
        }
        Err(e) => {
            println!("replay: property={prop} key={} :: {}", e.key, e.msg);
            println!("VIOLATION property={prop} replay={path}");
            1
        }
    }
}

/// Shrink a failing choice list while the same violation key recurs.
pub fn minimise(
    check: &dyn Check,
    choices: &[u64],
    v: &Violation,
    known: &[String],
    max_secs: f64,
) -> (Vec<u64>, Violation) {
    let t0 = Instant::now();
    let mut best: Vec<u64> = choices.to_vec();
    let mut best_v = v.clone();
    let mut attempts = 0u32;
    let mut try_cand = |cand: Vec<u64>, best: &mut Vec<u64>, best_v: &mut Violation| -> bool {
        attempts += 1;
        let mut src = Src::from_choices(cand);
        let (_ctx, r) = run_one(check, &mut src, false, known);
        if let Err(e) = r {
            if e.key == best_v.key {
                // Canonical form: what was actually drawn, trailing zeros cut.
                let mut log = src.log;
                while log.last() == Some(&0) {
                    log.pop();
                }
                let better = log.len() < best.len()
                    || (log.len() == best.len() && log.iter().map(|&x| x as u128).sum::<u128>() < best.iter().map(|&x| x as u128).sum::<u128>())
                    || (log.len() == best.len() && log < *best);
                if better {
                    *best = log;
                    *best_v = e;
                    return true;
                }
            }
        }
        false
    };
    // Canonicalise first.
    try_cand(best.clone(), &mut best, &mut best_v);
    let budget_ok = |attempts: u32| t0.elapsed().as_secs_f64() < max_secs && attempts < 4000;
    let mut progress = true;
    while progress && budget_ok(0) {
        progress = false;
        // 0. cut the tail (exhausted draws read as 0, the simplest choice)
        let mut keep = best.len() / 2;
        let mut step = best.len() / 4;
        while step >= 1 && budget_ok(0) {
            if keep < best.len() && try_cand(best[..keep].to_vec(), &mut best, &mut best_v) {
                progress = true;
                keep = best.len() / 2;
                step = (best.len() / 4).max(1);
                if best.len() < 4 {
                    break;
                }
                continue;
            }
            keep += step;
            step /= 2;
        }
        // 1. delete chunks
        let mut k = best.len() / 2;
        while k >= 1 {
            let mut i = 0;
            while i + k <= best.len() {
                if !budget_ok(0) {
                    break;
                }
                let mut cand = best.clone();
                cand.drain(i..i + k);
                if try_cand(cand, &mut best, &mut best_v) {
                    progress = true;
                } else {
                    i += k;
                }
            }
            k /= 2;
        }
        // 2. zero chunks
        let mut k = (best.len() / 2).max(1);
        while k >= 1 {
            let mut i = 0;
            while i < best.len() {
                if !budget_ok(0) {
                    break;
                }
                let end = (i + k).min(best.len());
                if best[i..end].iter().any(|&x| x != 0) {
                    let mut cand = best.clone();
                    for x in &mut cand[i..end] {
                        *x = 0;
                    }
                    if try_cand(cand, &mut best, &mut best_v) {
                        progress = true;
                    }
                }
                i += k;
            }
            if k == 1 {
                break;
            }
            k /= 2;
        }
        // 3. lower single values
        let mut i = 0;
        while i < best.len() && budget_ok(0) {
            let x = best[i];
            if x > 1 {
                for nv in [1, x / 2, x - 1] {
                    if nv < x {
                        let mut cand = best.clone();
                        cand[i] = nv;
                        if try_cand(cand, &mut best, &mut best_v) {
                            progress = true;
                            break;
                        }
                    }
                }
            }
            i += 1;
        }
    }
    (best, best_v)
}

/// Determinism self-test support: digest of the first `n` runs of a check,
/// executed on `workers` threads. Two invocations (other worker count, other
/// process) must print the same digest.
pub fn digest(check: &dyn Check, seed: u64, n: u64, workers: usize) -> (u64, Vec<u64>) {
    let known = Known::load().keys_for(check.id());
    let results: Mutex<Vec<(u64, u64)>> = Mutex::new(Vec::new());
    let next = AtomicU64::new(0);
    let workers = check.workers().unwrap_or(workers).max(1);
    std::thread::scope(|sc| {
        for _ in 0..workers {
            sc.spawn(|| {
                set_quiet(true);
                loop {
                    let i = next.fetch_add(1, Ordering::Relaxed);
                    if i >= n {
                        break;
                    }
                    let mut src = src_for(check, seed, i);
                    let (ctx, r) = run_one(check, &mut src, false, &known);
                    let mut h = TraceHash::default();
                    h.add(ctx.hash.0);
                    h.add(src.log.len() as u64);
                    for v in &src.log {
                        h.add(*v);
                    }
                    h.add(ctx.steps);
                    if let Err(e) = r {
                        h.add_bytes(e.key.as_bytes());
                    }
                    results.lock().unwrap().push((i, h.0));
                }
            });
        }
    });
    let mut v = results.into_inner().unwrap();
    v.sort();
    let mut h = TraceHash::default();
    for (_, x) in &v {
        h.add(*x);
    }
    (h.0, v.into_iter().map(|x| x.1).collect())
}
