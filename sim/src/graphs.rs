//! Generated flowgraphs over the block library, used by the runner checks
//! (C05, C06, C07): recipe generation, instantiation, reference execution.

use std::sync::{Arc, Mutex};

use rustradio::blocks::*;
use rustradio::block::{Block, BlockRet};
use rustradio::stream::{NCReadStream, ReadStream};
use rustradio::{Complex, Float};
use serde_json::{Value, json};

use crate::hblocks::*;
use crate::rig::Bits;
use crate::src::Src;

#[derive(Clone, Copy, Debug, PartialEq)]
pub enum Ty {
    U8,
    Bits,
    F32,
    C32,
}

#[derive(Clone, Debug)]
pub enum Stage {
    XorConst(u8),
    Nrzi,
    Descramble,
    DelayS(usize),
    SkipS(usize),
    Resample(usize, usize),
    AddConstF(f32),
    MulConstF(f32),
    FirF(Vec<f32>, usize),
    IirF(f32),
    Slicer,
    FftFiltF(Vec<f32>),
    HilbertS(usize),
    AddConstC(f32, f32),
    Mag2,
    QuadDemod(f32),
    FftFiltC(Vec<f32>),
    FirC(Vec<f32>, usize),
    RtlDecode,
    /// Tee -> (branch a, branch b) -> merge (Add / Xor).
    Diamond(Vec<Stage>, Vec<Stage>),
    /// Pass-through failing on its k-th call (C07 fault).
    Fail(u64),
    /// Harness block moving one frame of k per call and answering with a wait
    /// from the same call (bool: rate-decreasing variant, k in -> 1 out).
    Framed(usize, bool),
    /// Harness pass-through answering `Pending` n times before each move.
    Lazy(usize, bool),
    /// Batch size, calls to wait, `Again` instead of `Pending`.
    Hold(usize, usize, bool),
    /// Access-code correlator (bits -> bits).
    Correlate(Vec<u8>, usize),
    /// Tee -> (data, trigger = data * k) -> BurstTagger -> StreamToPdu ->
    /// VecToStream: a packet round trip in the middle of a sample chain.
    BurstRoundTrip(f32, f32, usize, usize),
    /// Tee whose second output goes to an extra collector sink.
    TapSink,
    /// Two float branches merged into complex samples.
    DiamondF2C(Vec<Stage>, Vec<Stage>),
    /// A second finite source (seed, length) merged in with Add (floats) or
    /// Xor (bytes/bits): the shorter input ends the merged stream.
    MergeSource(u64, usize),
}

#[derive(Clone, Debug)]
pub enum SinkKind {
    Collect,
    /// Bits -> HdlcDeframer -> packet collector.
    Hdlc,
    /// VectorSink from the library (max above the expected length).
    VectorSink,
}

#[derive(Clone, Debug)]
pub struct Recipe {
    pub src_ty: Ty,
    pub src_len: usize,
    pub data_seed: u64,
    pub infinite: bool,
    pub stages: Vec<Stage>,
    pub sink: SinkKind,
}

impl Recipe {
    pub fn describe(&self) -> Value {
        json!({"source": format!("{:?} x {}{}", self.src_ty, self.src_len, if self.infinite {" (infinite)"} else {""}), "stages": self.stages.iter().map(|s| stage_name(s)).collect::<Vec<_>>(), "sink": format!("{:?}", self.sink)})
    }
    pub fn nblocks(&self) -> usize {
        2 + self.stages.iter().map(|s| match s { Stage::Diamond(a, b) | Stage::DiamondF2C(a, b) => 2 + a.len() + b.len(), Stage::BurstRoundTrip(..) => 5, Stage::TapSink | Stage::MergeSource(..) => 2, _ => 1 }).sum::<usize>() + matches!(self.sink, SinkKind::Hdlc) as usize
    }
}

fn stage_name(s: &Stage) -> String {
    match s {
        Stage::FirF(t, d) => format!("FirF({} taps, deci {d})", t.len()),
        Stage::FirC(t, d) => format!("FirC({} taps, deci {d})", t.len()),
        Stage::FftFiltF(t) => format!("FftFiltF({} taps)", t.len()),
        Stage::FftFiltC(t) => format!("FftFiltC({} taps)", t.len()),
        Stage::Diamond(a, b) => format!("Diamond[{} | {}]", a.iter().map(stage_name).collect::<Vec<_>>().join(","), b.iter().map(stage_name).collect::<Vec<_>>().join(",")),
        Stage::DiamondF2C(a, b) => format!("DiamondF2C[{} | {}]", a.iter().map(stage_name).collect::<Vec<_>>().join(","), b.iter().map(stage_name).collect::<Vec<_>>().join(",")),
        Stage::Correlate(c, d) => format!("Correlate({} bits, {d} diffs)", c.len()),
        o => format!("{o:?}"),
    }
}

fn small_taps(src: &mut Src, max: usize) -> Vec<f32> {
    let n = src.range(1, max);
    (0..n).map(|_| (src.below(201) as f32 - 100.0) / 100.0).collect()
}

fn gen_stage(src: &mut Src, ty: Ty, cap_bytes: usize, allow_diamond: bool) -> (Stage, Ty) {
    let cap = |sz: usize| cap_bytes / sz;
    match ty {
        Ty::U8 | Ty::Bits => {
            let n = if ty == Ty::Bits { 7 } else { 5 };
            if src.chance(1, 8) {
                return (Stage::Framed(*src.pick(&[4usize, 7, 16, 64, 500]), src.chance(1, 3)), ty);
            }
            if src.chance(1, 12) {
                return (Stage::Lazy(src.range(1, 3), src.coin()), ty);
            }
            if src.chance(1, 14) {
                return (Stage::Hold(*src.pick(&[7usize, 100, 100_000]), src.range(0, 3), src.coin()), ty);
            }
            match src.below(n + allow_diamond as usize) {
                0 => (Stage::XorConst(if ty == Ty::Bits { src.below(2) as u8 } else { src.below(256) as u8 }), ty),
                1 => (Stage::DelayS(src.below(cap(1) / 4)), ty),
                // (now and then more than a whole stream's worth)
                2 => (Stage::SkipS(if src.chance(1, 8) { cap(1) + 1 + src.below(cap(1)) } else { src.below(cap(1) / 4) }), ty),
                3 => {
                    let (i, d) = *src.pick(&[(1usize, 2usize), (2, 1), (3, 2), (2, 3), (1, 1), (1, 4)]);
                    (Stage::Resample(i, d), ty)
                }
                4 if ty == Ty::U8 => (Stage::RtlDecode, Ty::C32),
                4 => (Stage::Nrzi, ty),
                5 if ty == Ty::Bits => (Stage::Descramble, ty),
                6 if ty == Ty::Bits => {
                    let l = src.range(1, 9);
                    let code: Vec<u8> = (0..l).map(|_| src.below(2) as u8).collect();
                    (Stage::Correlate(code, src.below(3)), ty)
                }
                _ => {
                    if src.coin() {
                        let a = gen_branch(src, ty, cap_bytes);
                        let b = gen_branch(src, ty, cap_bytes);
                        (Stage::Diamond(a, b), ty)
                    } else {
                        let l = match src.below(4) {
                            0 => 0,
                            1 => cap(1) + 1,
                            _ => src.range(1, 2 * cap(1)),
                        };
                        (Stage::MergeSource(src.bits(), l), ty)
                    }
                }
            }
        }
        Ty::F32 | Ty::C32 if src.chance(1, 9) => (Stage::Framed(*src.pick(&[4usize, 7, 16, 64, 500]), src.chance(1, 3)), ty),
        Ty::F32 | Ty::C32 if src.chance(1, 12) => (Stage::Lazy(src.range(1, 3), src.coin()), ty),
        Ty::F32 | Ty::C32 if src.chance(1, 14) => (Stage::Hold(*src.pick(&[7usize, 100, 100_000]), src.range(0, 3), src.coin()), ty),
        Ty::F32 => match src.below(9 + 5 * allow_diamond as usize) {
            0 => (Stage::AddConstF((src.below(41) as f32 - 20.0) * 0.25), ty),
            1 => (Stage::MulConstF((src.below(41) as f32 - 20.0) * 0.125), ty),
            2 => (Stage::DelayS(src.below(cap(4) / 4)), ty),
            3 => (Stage::SkipS(if src.chance(1, 8) { cap(4) + 1 + src.below(cap(4)) } else { src.below(cap(4) / 4) }), ty),
            4 => (Stage::FirF(small_taps(src, 24), src.range(1, 4)), ty),
            5 => (Stage::IirF(*src.pick(&[0.5f32, 0.1, 1.0])), ty),
            6 => (Stage::Slicer, Ty::Bits),
            7 => (Stage::FftFiltF(small_taps(src, 20)), ty),
            8 => (Stage::HilbertS(*src.pick(&[3usize, 7, 15])), Ty::C32),
            9 => {
                let a = gen_branch(src, ty, cap_bytes);
                let b = gen_branch(src, ty, cap_bytes);
                (Stage::Diamond(a, b), ty)
            }
            10 => {
                let a = gen_branch(src, ty, cap_bytes);
                let b = gen_branch(src, ty, cap_bytes);
                (Stage::DiamondF2C(a, b), Ty::C32)
            }
            11 => (Stage::BurstRoundTrip(*src.pick(&[1.0f32, -1.0, 0.5]), *src.pick(&[0.0f32, 0.5, -0.5]), (*src.pick(&[20usize, 200, 5000])).min(cap(4) / 2), *src.pick(&[0usize, 1, 4])), ty),
            12 => (Stage::TapSink, ty),
            _ => {
                let l = match src.below(4) {
                    0 => 0,
                    1 => cap(4) + 1,
                    _ => src.range(1, 2 * cap(4)),
                };
                (Stage::MergeSource(src.bits(), l), ty)
            }
        },
        Ty::C32 => match src.below(6) {
            0 => (Stage::AddConstC((src.below(9) as f32 - 4.0) * 0.5, (src.below(9) as f32 - 4.0) * 0.5), ty),
            1 => (Stage::Mag2, Ty::F32),
            2 => (Stage::QuadDemod(*src.pick(&[1.0f32, 0.5])), Ty::F32),
            3 => (Stage::FftFiltC(small_taps(src, 20)), ty),
            4 => (Stage::FirC(small_taps(src, 16), src.range(1, 3)), ty),
            _ => (Stage::DelayS(src.below(cap(8) / 4)), ty),
        },
    }
}

/// Rate-1, type-preserving branch stages with bounded skew.
fn gen_branch(src: &mut Src, ty: Ty, cap_bytes: usize) -> Vec<Stage> {
    let n = src.below(3);
    let esz = match ty {
        Ty::U8 | Ty::Bits => 1,
        Ty::F32 => 4,
        Ty::C32 => 8,
    };
    let cap = cap_bytes / esz;
    (0..n)
        .map(|_| match (ty, src.below(3)) {
            (Ty::F32, 0) => Stage::AddConstF((src.below(9) as f32 - 4.0) * 0.5),
            (Ty::F32, 1) => Stage::MulConstF((src.below(9) as f32 - 4.0) * 0.5),
            (Ty::U8, 0) | (Ty::Bits, 0) => Stage::XorConst(if ty == Ty::Bits { 1 } else { src.below(256) as u8 }),
            (_, 1) => Stage::DelayS(src.below((cap / 8).max(1))),
            _ => Stage::SkipS(src.below((cap / 8).max(1))),
        })
        .collect()
}

pub fn gen_recipe(src: &mut Src, cap_bytes: usize, max_stages: usize) -> Recipe {
    let src_ty = *src.pick(&[Ty::U8, Ty::Bits, Ty::F32, Ty::C32, Ty::F32, Ty::Bits]);
    let esz = match src_ty {
        Ty::U8 | Ty::Bits => 1,
        Ty::F32 => 4,
        Ty::C32 => 8,
    };
    let cap = cap_bytes / esz;
    let src_len = match src.below(if crate::engine::deep() { 12 } else { 10 }) {
        10 => 7 * cap + src.below(100),
        11 => src.range(2 * cap, 5 * cap),
        0 => 0,
        1 => 1,
        2 => cap - 1,
        3 => cap,
        4 => cap + 1,
        5 => 3 * cap + src.below(17),
        6 | 7 => src.range(1, 2 * cap),
        _ => src.range(1, cap.min(700)),
    };
    let data_seed = src.bits();
    let ns = src.range(0, max_stages);
    let mut stages = Vec::new();
    let mut ty = src_ty;
    let mut diamonds = 0;
    for _ in 0..ns {
        let (mut s, t) = gen_stage(src, ty, cap_bytes, diamonds == 0);
        // The frame-hoarding variant only directly after the source: behind a
        // block that writes in large granules (FFT blocks, whole packets) a
        // consumer that holds back a partial frame can deadlock any bounded
        // buffer (free < granule while available < frame), which is a property
        // of the graph, not of the runner.
        if let Stage::Framed(k, true) = s {
            if !stages.is_empty() {
                s = Stage::Framed(k, false);
            }
        }
        if matches!(s, Stage::Diamond(..) | Stage::DiamondF2C(..) | Stage::BurstRoundTrip(..) | Stage::TapSink | Stage::MergeSource(..)) {
            diamonds += 1;
        }
        stages.push(s);
        ty = t;
    }
    let sink = match (ty, src.below(4)) {
        (Ty::Bits, 0) => SinkKind::Hdlc,
        (_, 1) => SinkKind::VectorSink,
        _ => SinkKind::Collect,
    };
    Recipe {
        src_ty,
        src_len,
        data_seed,
        infinite: false,
        stages,
        sink,
    }
}

pub enum St {
    U8(ReadStream<u8>),
    F32(ReadStream<Float>),
    C32(ReadStream<Complex>),
}

pub enum SinkHandle {
    U8(Arc<Mutex<Vec<u8>>>),
    F32(Arc<Mutex<Vec<f32>>>),
    C32(Arc<Mutex<Vec<Complex>>>),
    Pkt(Arc<Mutex<Vec<Vec<u8>>>>),
    VsU8(rustradio::vector_sink::Hook<u8>),
    VsF32(rustradio::vector_sink::Hook<f32>),
    VsC32(rustradio::vector_sink::Hook<Complex>),
}

impl Built {
    /// Contents of every sink (main sink first), with separators.
    pub fn all_sink_bytes(&self) -> Vec<u8> {
        let mut out = self.sink.bytes();
        for s in &self.extra_sinks {
            out.extend_from_slice(b"|SINK|");
            out.extend(s.bytes());
        }
        out
    }
    pub fn all_sink_len(&self) -> usize {
        self.sink.len() + self.extra_sinks.iter().map(|s| s.len()).sum::<usize>()
    }
}

impl SinkHandle {
    pub fn bytes(&self) -> Vec<u8> {
        let mut out = Vec::new();
        match self {
            SinkHandle::U8(s) => s.lock().unwrap().iter().for_each(|x| x.bits(&mut out)),
            SinkHandle::F32(s) => s.lock().unwrap().iter().for_each(|x| x.bits(&mut out)),
            SinkHandle::C32(s) => s.lock().unwrap().iter().for_each(|x| x.bits(&mut out)),
            SinkHandle::Pkt(s) => {
                for p in s.lock().unwrap().iter() {
                    out.extend((p.len() as u32).to_le_bytes());
                    out.extend(p);
                }
            }
            SinkHandle::VsU8(h) => h.data().samples().iter().for_each(|x| x.bits(&mut out)),
            SinkHandle::VsF32(h) => h.data().samples().iter().for_each(|x| x.bits(&mut out)),
            SinkHandle::VsC32(h) => h.data().samples().iter().for_each(|x| x.bits(&mut out)),
        }
        out
    }
    pub fn len(&self) -> usize {
        match self {
            SinkHandle::U8(s) => s.lock().unwrap().len(),
            SinkHandle::F32(s) => s.lock().unwrap().len(),
            SinkHandle::C32(s) => s.lock().unwrap().len(),
            SinkHandle::Pkt(s) => s.lock().unwrap().len(),
            SinkHandle::VsU8(h) => h.data().samples().len(),
            SinkHandle::VsF32(h) => h.data().samples().len(),
            SinkHandle::VsC32(h) => h.data().samples().len(),
        }
    }
}

pub struct Built {
    /// In construction (topological) order, with names.
    pub blocks: Vec<Box<dyn Block + Send>>,
    pub sink: SinkHandle,
    /// Additional sinks (TapSink stages), in stage order.
    pub extra_sinks: Vec<SinkHandle>,
    pub fail_flags: Vec<Arc<std::sync::atomic::AtomicBool>>,
}

fn source_data_u8(seed: u64, n: usize, bits: bool) -> Vec<u8> {
    let mut r = crate::src::Rng::new(seed);
    (0..n).map(|_| if bits { (r.next() >> 63) as u8 } else { (r.next() >> 56) as u8 }).collect()
}
fn source_data_f32(seed: u64, n: usize) -> Vec<f32> {
    let mut r = crate::src::Rng::new(seed);
    (0..n).map(|_| ((r.next() >> 40) as f32 / (1u64 << 24) as f32) * 4.0 - 2.0).collect()
}

fn build_stage(s: &Stage, input: St, blocks: &mut Vec<Box<dyn Block + Send>>, fails: &mut Vec<Arc<std::sync::atomic::AtomicBool>>) -> St {
    build_stage_x(s, input, blocks, fails, &mut Vec::new())
}

fn build_stage_x(s: &Stage, input: St, blocks: &mut Vec<Box<dyn Block + Send>>, fails: &mut Vec<Arc<std::sync::atomic::AtomicBool>>, extra: &mut Vec<SinkHandle>) -> St {
    macro_rules! push {
        ($b:expr, $o:expr, $v:ident) => {{
            blocks.push(Box::new($b));
            St::$v($o)
        }};
    }
    match (s, input) {
        (Stage::XorConst(v), St::U8(r)) => {
            let (b, o) = XorConst::new(r, *v);
            push!(b, o, U8)
        }
        (Stage::Nrzi, St::U8(r)) => {
            let (b, o) = NrziDecode::new(r);
            push!(b, o, U8)
        }
        (Stage::Descramble, St::U8(r)) => {
            let (b, o) = Descrambler::new_g3ruh(r);
            push!(b, o, U8)
        }
        (Stage::DelayS(d), St::U8(r)) => {
            let (b, o) = Delay::new(r, *d);
            push!(b, o, U8)
        }
        (Stage::DelayS(d), St::F32(r)) => {
            let (b, o) = Delay::new(r, *d);
            push!(b, o, F32)
        }
        (Stage::DelayS(d), St::C32(r)) => {
            let (b, o) = Delay::new(r, *d);
            push!(b, o, C32)
        }
        (Stage::SkipS(d), St::U8(r)) => {
            let (b, o) = Skip::new(r, *d);
            push!(b, o, U8)
        }
        (Stage::SkipS(d), St::F32(r)) => {
            let (b, o) = Skip::new(r, *d);
            push!(b, o, F32)
        }
        (Stage::Resample(i, d), St::U8(r)) => {
            let (b, o) = RationalResampler::new(r, *i, *d).expect("resampler");
            push!(b, o, U8)
        }
        (Stage::RtlDecode, St::U8(r)) => {
            let (b, o) = RtlSdrDecode::new(r);
            push!(b, o, C32)
        }
        (Stage::AddConstF(v), St::F32(r)) => {
            let (b, o) = AddConst::new(r, *v);
            push!(b, o, F32)
        }
        (Stage::MulConstF(v), St::F32(r)) => {
            let (b, o) = MultiplyConst::new(r, *v);
            push!(b, o, F32)
        }
        (Stage::FirF(t, d), St::F32(r)) => {
            let (b, o) = FirFilterBuilder::new(t).deci(*d).build(r);
            push!(b, o, F32)
        }
        (Stage::IirF(a), St::F32(r)) => {
            let (b, o) = SinglePoleIirFilter::new(r, *a).expect("alpha");
            push!(b, o, F32)
        }
        (Stage::Slicer, St::F32(r)) => {
            let (b, o) = BinarySlicer::new(r);
            push!(b, o, U8)
        }
        (Stage::FftFiltF(t), St::F32(r)) => {
            let (b, o) = FftFilterFloat::new(r, t);
            push!(b, o, F32)
        }
        (Stage::HilbertS(n), St::F32(r)) => {
            let (b, o) = Hilbert::new(r, *n, &rustradio::window::WindowType::Hamming);
            push!(b, o, C32)
        }
        (Stage::AddConstC(re, im), St::C32(r)) => {
            let (b, o) = AddConst::new(r, Complex::new(*re, *im));
            push!(b, o, C32)
        }
        (Stage::Mag2, St::C32(r)) => {
            let (b, o) = ComplexToMag2::new(r);
            push!(b, o, F32)
        }
        (Stage::QuadDemod(g), St::C32(r)) => {
            let (b, o) = QuadratureDemod::new(r, *g);
            push!(b, o, F32)
        }
        (Stage::FftFiltC(t), St::C32(r)) => {
            let taps: Vec<Complex> = t.iter().map(|&x| Complex::new(x, 0.0)).collect();
            let (b, o) = FftFilter::new(r, &taps);
            push!(b, o, C32)
        }
        (Stage::FirC(t, d), St::C32(r)) => {
            let taps: Vec<Complex> = t.iter().map(|&x| Complex::new(x, 0.0)).collect();
            let (b, o) = FirFilterBuilder::new(&taps).deci(*d).build(r);
            push!(b, o, C32)
        }
        (Stage::MergeSource(seed, len), St::U8(r)) => {
            // Bits stay bits: the second source is drawn as bits too.
            let (b2, o2) = VectorSource::new(source_data_u8(*seed, *len, true));
            blocks.push(Box::new(b2));
            let (m, o) = Xor::new(r, o2);
            push!(m, o, U8)
        }
        (Stage::MergeSource(seed, len), St::F32(r)) => {
            let (b2, o2) = VectorSource::new(source_data_f32(*seed, *len));
            blocks.push(Box::new(b2));
            let (m, o) = Add::<Float, Float, Float>::new(r, o2);
            push!(m, o, F32)
        }
        (Stage::Correlate(code, d), St::U8(r)) => {
            let (b, o) = CorrelateAccessCode::new(r, code.clone(), *d);
            push!(b, o, U8)
        }
        (Stage::TapSink, St::F32(r)) => {
            let (t, o1, o2) = Tee::new(r);
            blocks.push(Box::new(t));
            let (c, h) = Collector::new(o2);
            blocks.push(Box::new(c));
            extra.push(SinkHandle::F32(h));
            St::F32(o1)
        }
        (Stage::BurstRoundTrip(k, th, max, tail), St::F32(r)) => {
            let (t, data, b2) = Tee::new(r);
            blocks.push(Box::new(t));
            let (m, trig) = MultiplyConst::new(b2, *k);
            blocks.push(Box::new(m));
            let (bt, tagged) = BurstTagger::new(data, trig, *th, "burst");
            blocks.push(Box::new(bt));
            let (sp, pk) = StreamToPdu::new(tagged, "burst", *max, *tail);
            blocks.push(Box::new(sp));
            let (v, o) = VecToStream::new(pk);
            push!(v, o, F32)
        }
        (Stage::DiamondF2C(a, b2), St::F32(r)) => {
            let (t, o1, o2) = Tee::new(r);
            blocks.push(Box::new(t));
            let mut sa = St::F32(o1);
            for s in a {
                sa = build_stage(s, sa, blocks, fails);
            }
            let mut sb = St::F32(o2);
            for s in b2 {
                sb = build_stage(s, sb, blocks, fails);
            }
            match (sa, sb) {
                (St::F32(x), St::F32(y)) => {
                    let (m, o) = FloatToComplex::new(x, y);
                    push!(m, o, C32)
                }
                _ => unreachable!("branch types"),
            }
        }
        (Stage::Fail(k), St::U8(r)) => {
            let (b, o, f) = FailAt::new(r, *k);
            fails.push(f);
            push!(b, o, U8)
        }
        (Stage::Fail(k), St::F32(r)) => {
            let (b, o, f) = FailAt::new(r, *k);
            fails.push(f);
            push!(b, o, F32)
        }
        (Stage::Fail(k), St::C32(r)) => {
            let (b, o, f) = FailAt::new(r, *k);
            fails.push(f);
            push!(b, o, C32)
        }
        (Stage::Lazy(k, ag), St::U8(r)) => {
            let (b, o) = Lazy::new(r, *k, *ag);
            push!(b, o, U8)
        }
        (Stage::Lazy(k, ag), St::F32(r)) => {
            let (b, o) = Lazy::new(r, *k, *ag);
            push!(b, o, F32)
        }
        (Stage::Lazy(k, ag), St::C32(r)) => {
            let (b, o) = Lazy::new(r, *k, *ag);
            push!(b, o, C32)
        }
        (Stage::Hold(k, arm, ag), St::U8(r)) => {
            let (b, o) = Hold::new(r, *k, *arm, *ag);
            push!(b, o, U8)
        }
        (Stage::Hold(k, arm, ag), St::F32(r)) => {
            let (b, o) = Hold::new(r, *k, *arm, *ag);
            push!(b, o, F32)
        }
        (Stage::Hold(k, arm, ag), St::C32(r)) => {
            let (b, o) = Hold::new(r, *k, *arm, *ag);
            push!(b, o, C32)
        }
        (Stage::Framed(k, f), St::U8(r)) => {
            let (b, o) = Framed::new(r, *k, *f);
            push!(b, o, U8)
        }
        (Stage::Framed(k, f), St::F32(r)) => {
            let (b, o) = Framed::new(r, *k, *f);
            push!(b, o, F32)
        }
        (Stage::Framed(k, f), St::C32(r)) => {
            let (b, o) = Framed::new(r, *k, *f);
            push!(b, o, C32)
        }
        (Stage::Diamond(a, b2), St::U8(r)) => {
            let (t, o1, o2) = Tee::new(r);
            blocks.push(Box::new(t));
            let mut sa = St::U8(o1);
            for s in a {
                sa = build_stage(s, sa, blocks, fails);
            }
            let mut sb = St::U8(o2);
            for s in b2 {
                sb = build_stage(s, sb, blocks, fails);
            }
            match (sa, sb) {
                (St::U8(x), St::U8(y)) => {
                    let (m, o) = Xor::new(x, y);
                    push!(m, o, U8)
                }
                _ => unreachable!("branch types"),
            }
        }
        (Stage::Diamond(a, b2), St::F32(r)) => {
            let (t, o1, o2) = Tee::new(r);
            blocks.push(Box::new(t));
            let mut sa = St::F32(o1);
            for s in a {
                sa = build_stage(s, sa, blocks, fails);
            }
            let mut sb = St::F32(o2);
            for s in b2 {
                sb = build_stage(s, sb, blocks, fails);
            }
            match (sa, sb) {
                (St::F32(x), St::F32(y)) => {
                    let (m, o) = Add::<Float, Float, Float>::new(x, y);
                    push!(m, o, F32)
                }
                _ => unreachable!("branch types"),
            }
        }
        (s, _) => panic!("recipe type error at {s:?}"),
    }
}

pub fn build(recipe: &Recipe) -> Built {
    let mut blocks: Vec<Box<dyn Block + Send>> = Vec::new();
    let mut fails = Vec::new();
    let mut cur = match recipe.src_ty {
        Ty::U8 | Ty::Bits => {
            if recipe.infinite {
                let (b, o) = ConstantSource::new(1u8);
                blocks.push(Box::new(b));
                St::U8(o)
            } else {
                let (b, o) = VectorSource::new(source_data_u8(recipe.data_seed, recipe.src_len, recipe.src_ty == Ty::Bits));
                blocks.push(Box::new(b));
                St::U8(o)
            }
        }
        Ty::F32 => {
            if recipe.infinite {
                let (b, o) = SignalSourceFloat::new(8000.0, 100.0, 1.0);
                blocks.push(Box::new(b));
                St::F32(o)
            } else {
                let (b, o) = VectorSource::new(source_data_f32(recipe.data_seed, recipe.src_len));
                blocks.push(Box::new(b));
                St::F32(o)
            }
        }
        Ty::C32 => {
            if recipe.infinite {
                let (b, o) = ConstantSource::new(Complex::new(0.5, -0.5));
                blocks.push(Box::new(b));
                St::C32(o)
            } else {
                let d = source_data_f32(recipe.data_seed, recipe.src_len * 2);
                let (b, o) = VectorSource::new(d.chunks_exact(2).map(|c| Complex::new(c[0], c[1])).collect::<Vec<_>>());
                blocks.push(Box::new(b));
                St::C32(o)
            }
        }
    };
    let mut extra_sinks = Vec::new();
    for s in &recipe.stages {
        cur = build_stage_x(s, cur, &mut blocks, &mut fails, &mut extra_sinks);
    }
    let sink = match (&recipe.sink, cur) {
        (SinkKind::Hdlc, St::U8(r)) => {
            let (d, o): (_, NCReadStream<Vec<u8>>) = HdlcDeframer::new(r, 2, 60);
            blocks.push(Box::new(d));
            let (c, h) = CollectorNc::new(o);
            blocks.push(Box::new(c));
            SinkHandle::Pkt(h)
        }
        (SinkKind::VectorSink, St::U8(r)) => {
            let b = VectorSink::new(r, usize::MAX / 4);
            let h = b.hook();
            blocks.push(Box::new(b));
            SinkHandle::VsU8(h)
        }
        (SinkKind::VectorSink, St::F32(r)) => {
            let b = VectorSink::new(r, usize::MAX / 4);
            let h = b.hook();
            blocks.push(Box::new(b));
            SinkHandle::VsF32(h)
        }
        (SinkKind::VectorSink, St::C32(r)) => {
            let b = VectorSink::new(r, usize::MAX / 4);
            let h = b.hook();
            blocks.push(Box::new(b));
            SinkHandle::VsC32(h)
        }
        (_, St::U8(r)) => {
            let (c, h) = Collector::new(r);
            blocks.push(Box::new(c));
            SinkHandle::U8(h)
        }
        (_, St::F32(r)) => {
            let (c, h) = Collector::new(r);
            blocks.push(Box::new(c));
            SinkHandle::F32(h)
        }
        (_, St::C32(r)) => {
            let (c, h) = Collector::new(r);
            blocks.push(Box::new(c));
            SinkHandle::C32(h)
        }
    };
    Built {
        blocks,
        sink,
        extra_sinks,
        fail_flags: fails,
    }
}

/// Sequential reference execution: the same blocks on big streams, driven in
/// topological order to quiescence. Never looks at wait verdicts: it stops
/// when the sink has not grown and no block said `Again` for nblocks+2 passes.
pub fn reference_execute(recipe: &Recipe, big_bytes: usize) -> Result<Vec<u8>, String> {
    rustradio::verif::set_stream_size(big_bytes);
    let mut built = build(recipe);
    rustradio::verif::set_stream_size(0);
    let n = built.blocks.len();
    let mut eof = vec![false; n];
    let mut quiet = 0;
    let mut passes = 0;
    while quiet < n + 2 {
        passes += 1;
        if passes > 200_000 {
            return Err("reference execution did not reach quiescence".into());
        }
        let before = built.all_sink_len();
        let moved_before = crate::rt::solo_moved();
        let mut again = false;
        for (i, b) in built.blocks.iter_mut().enumerate() {
            if eof[i] {
                continue;
            }
            let name = b.block_name().to_string();
            match b.work() {
                Ok(BlockRet::Again) | Ok(BlockRet::Pending) => again = true,
                Ok(BlockRet::EOF) => {
                    eof[i] = true;
                    again = true;
                }
                Ok(_) => {}
                Err(e) => return Err(format!("reference execution: block {name} failed: {e}")),
            }
        }
        // Quiescence = a pass in which nothing moved on any stream (a block may
        // answer with a wait from a call in which it moved data).
        if again || built.all_sink_len() != before || crate::rt::solo_moved() != moved_before {
            quiet = 0;
        } else {
            quiet += 1;
        }
    }
    Ok(built.all_sink_bytes())
}
