//! graphsim: the real single-threaded `Graph::run` on generated graphs with
//! virtual sleep (C06), and the C07 check (cancellation / block failure) over
//! both runners.

use std::sync::atomic::{AtomicU64, Ordering};
use std::sync::{Arc, Mutex};

use rustradio::block::Block;
use rustradio::graph::{Graph, GraphRunner};
use serde_json::{Value, json};

use crate::engine::{Budget, Check, RunCtx, RunResult, Tier, Violation, catch};
use crate::graphs::*;
use crate::hblocks::*;
use crate::mt::{C07Mode, mtgraph_run};
use crate::rt::{Sched, SchedCfg, Solo};
use crate::src::Src;

pub struct GraphCheck;

fn permutations(n: usize) -> Vec<Vec<usize>> {
    fn rec(cur: &mut Vec<usize>, used: &mut Vec<bool>, n: usize, out: &mut Vec<Vec<usize>>) {
        if cur.len() == n {
            out.push(cur.clone());
            return;
        }
        for i in 0..n {
            if !used[i] {
                used[i] = true;
                cur.push(i);
                rec(cur, used, n, out);
                cur.pop();
                used[i] = false;
            }
        }
    }
    let mut out = Vec::new();
    rec(&mut Vec::new(), &mut vec![false; n], n, &mut out);
    out
}

impl Check for GraphCheck {
    fn id(&self) -> &'static str {
        "C06"
    }
    fn rule(&self) -> String {
        "one run = one generated graph (same recipe space as C05) executed by the real Graph::run under virtual time (its idle sleep advances a simulated clock), once per add order: every permutation for graphs of up to 4 blocks, otherwise 8 seeded permutations incl. topological and reverse; stream size 1-4 pages; sources 0..3*capacity+r. \
         Checked: run() returns Ok, and every time the sink equals the sequential reference execution (a run that returns while data is in flight shows as a shorter sink). \
         non-trivial = at least one non-topological add order on a graph whose source holds data; distinct = hash of recipe and orders".into()
    }
    fn assumptions(&self) -> Vec<String> {
        vec![
            "reference = same block code driven in topological order on large streams until nothing moves".into(),
            "diamond branch skew below capacity/4; packets at most half the stream capacity (VecToStream writes a vector in one piece)".into(),
        ]
    }
    fn real_vs_stub(&self) -> Value {
        json!({"real": ["Graph::run, library blocks, streams"], "simulated": ["sleep / clock (Solo runtime)", "block add order and stream sizes as seeded configuration faults"], "stub": ["sink = harness Collector (or library VectorSink)"]})
    }
    fn budget(&self, tier: Tier) -> Budget {
        match tier {
            Tier::Quick => Budget { runs: 5000, max_secs: 45.0 },
            Tier::Thorough => Budget { runs: 1_000_000, max_secs: 900.0 },
        }
    }
    fn required(&self, _tier: Tier) -> Vec<&'static str> {
        vec!["order_reverse", "order_all_permutations", "source_larger_than_stream", "sink_equals_reference"]
    }
    fn run(&self, src: &mut Src, ctx: &mut RunCtx) -> RunResult {
        let small = *src.pick(&[4096usize, 4096, 8192, 16384]);
        let recipe = gen_recipe(src, small, if crate::engine::deep() { 9 } else { 6 });
        ctx.ev(|| format!("C06 recipe={} stream_bytes={small}", recipe.describe()));
        if ctx.sample.is_none() {
            ctx.sample = Some(json!({"recipe": recipe.describe(), "stream_bytes": small}));
        }
        let solo = Solo::new();
        let reference = match solo.with(|| catch(|| reference_execute(&recipe, 128 * 4096))) {
            Ok(Ok(b)) => b,
            Ok(Err(e)) => return Err(Violation::new("HARNESS-PANIC reference", e)),
            Err(p) => return Err(Violation::new(format!("C06:reference-panicked:{}", p.site()), format!("sequential reference execution panicked: {} at {}", p.msg, p.loc))),
        };
        let n = recipe.nblocks();
        let orders: Vec<Vec<usize>> = if n <= 4 {
            ctx.count("order_all_permutations");
            permutations(n)
        } else {
            let mut v: Vec<Vec<usize>> = vec![(0..n).collect(), (0..n).rev().collect()];
            for _ in 0..6 {
                let mut p: Vec<usize> = (0..n).collect();
                for i in (1..n).rev() {
                    let j = src.below(i + 1);
                    p.swap(i, j);
                }
                v.push(p);
            }
            v
        };
        let esz = match recipe.src_ty {
            Ty::U8 | Ty::Bits => 1,
            Ty::F32 => 4,
            Ty::C32 => 8,
        };
        if recipe.src_len * esz > small {
            ctx.count("source_larger_than_stream");
        }
        ctx.hash.add_bytes(format!("{}", recipe.describe()).as_bytes());
        let second_use = src.chance(1, 8);
        if second_use {
            ctx.count("graph_run_again_after_adding_blocks");
        }
        for order in orders {
            let topo = order.iter().enumerate().all(|(i, &o)| i == o);
            if order.iter().rev().enumerate().all(|(i, &o)| i == o) && n > 1 {
                ctx.count("order_reverse");
            }
            if !topo && recipe.src_len > 0 {
                ctx.nontrivial = true;
            }
            for o in &order {
                ctx.hash.add(*o as u64);
            }
            let r = solo.with(|| {
                catch(|| {
                    rustradio::verif::set_stream_size(small);
                    let mut built = build(&recipe);
                    rustradio::verif::set_stream_size(0);
                    let mut blocks: Vec<Option<Box<dyn Block + Send>>> = std::mem::take(&mut built.blocks).into_iter().map(Some).collect();
                    assert_eq!(blocks.len(), order.len(), "recipe.nblocks() disagrees with build()");
                    let mut g = Graph::new();
                    for &i in &order {
                        g.add(blocks[i].take().unwrap());
                    }
                    let mut r = g.run().map_err(|e| e.to_string());
                    // Second use of the same graph: more blocks added after a
                    // run, then run() again. The new chain must be processed;
                    // what the first run delivered stays as it is.
                    if second_use && r.is_ok() {
                        let data: Vec<u8> = (0..200u32).map(|i| (i * 7) as u8).collect();
                        let (s2, o2) = rustradio::blocks::VectorSource::new(data.clone());
                        let k2 = rustradio::blocks::VectorSink::new(o2, 1000);
                        let hook = k2.hook();
                        g.add(Box::new(s2));
                        g.add(Box::new(k2));
                        r = g.run().map_err(|e| format!("second run() on the same graph, after two more blocks were added: {e}"));
                        if r.is_ok() && hook.data().samples() != &data[..] {
                            r = Err(format!("second run() on the same graph: the chain added after the first run delivered {} of 200 samples", hook.data().samples().len()));
                        }
                    }
                    (r, built.all_sink_bytes())
                })
            });
            ctx.steps += 1;
            match r {
                Err(p) => {
                    return Err(Violation::new(format!("C06:run-panicked:{}", p.site()), format!("Graph::run() panicked with add order {order:?}: {} at {}; recipe {}", p.msg, p.loc, recipe.describe())));
                }
                Ok((Err(e), _)) => {
                    return Err(Violation::new("C06:run-err", format!("Graph::run() failed with add order {order:?}: {e}; recipe {}", recipe.describe())));
                }
                Ok((Ok(()), got)) => {
                    if got != reference {
                        let d = crate::rigcheck::first_diff(&reference, &got).unwrap_or(0);
                        let key = if got.len() < reference.len() && got[..] == reference[..got.len()] { "C06:returned-with-data-in-flight" } else { "C06:sink-differs" };
                        return Err(Violation::new(
                            key,
                            format!("add order {order:?}{}: sink holds {} bytes when run() returned, reference {} bytes (first difference at byte {d}); recipe {}", if topo { " (topological)" } else { "" }, got.len(), reference.len(), recipe.describe()),
                        ));
                    }
                    ctx.count("sink_equals_reference");
                }
            }
        }
        ctx.sim_ns += solo.state().clock_ns;
        ctx.add("fault:virtual_sleep", solo.state().sleeps);
        Ok(())
    }
}

// ===========================================================================
// C07

pub struct CancelCheck;

impl Check for CancelCheck {
    fn id(&self) -> &'static str {
        "C07"
    }
    fn level(&self) -> &'static str {
        "fault_enumeration"
    }
    fn rule(&self) -> String {
        "one run = one generated graph on one runner with one injected fault. MTGraph leg (baton scheduler): (a) a canceller thread calls cancel() after a seeded number of scheduling points (so it lands before spawning, during spawning, while blocks wait, or after the end) over infinite and finite sources; (b) a pass-through block at a seeded chain position fails on its seeded k-th call; occasionally (c) the n-th thread spawn fails. \
         Graph leg (virtual time): (a) a wrapper block triggers the token from inside its k-th work() call (the only way to cancel a single-threaded runner mid-run), (b) failing block as above, every add order for small graphs. \
         Checked: after cancel() returned no block is invoked more than the bound (2 calls MTGraph, 1 full pass Graph), run() returns Ok and leaves no thread; a failing work() comes back as that Err from run() on both runners, never a panic, hang or Ok. \
         non-trivial = the fault actually fired while the runner was active; distinct = hash of recipe, fault position and scheduling trace".into()
    }
    fn assumptions(&self) -> Vec<String> {
        vec![
            "bound on further work() calls per block after cancel() returned: 2 (MTGraph), 1 (Graph)".into(),
            "sequentially consistent interleavings".into(),
        ]
    }
    fn real_vs_stub(&self) -> Value {
        json!({"real": ["MTGraph::run, Graph::run, CancellationToken, library blocks"], "simulated": ["threads, locks, time-outs, AtomicBool accesses, sleep"], "stub": ["FailAt pass-through block and the counting wrapper are harness blocks"]})
    }
    fn budget(&self, tier: Tier) -> Budget {
        match tier {
            Tier::Quick => Budget { runs: 15000, max_secs: 45.0 },
            Tier::Thorough => Budget { runs: 400_000, max_secs: 1200.0 },
        }
    }
    fn required(&self, _tier: Tier) -> Vec<&'static str> {
        vec!["fault:cancel", "fault:block_error", "block_error_returned", "work_call_after_cancel", "graph_leg", "mt_leg"]
    }
    fn run(&self, src: &mut Src, ctx: &mut RunCtx) -> RunResult {
        match src.below(5) {
            4 => {
                ctx.count("mt_leg");
                mtgraph_run(src, ctx, "C07", Some(C07Mode::FailCancel))
            }
            0 => {
                ctx.count("mt_leg");
                mtgraph_run(src, ctx, "C07", Some(C07Mode::Cancel))
            }
            1 => {
                ctx.count("mt_leg");
                mtgraph_run(src, ctx, "C07", Some(C07Mode::Fail))
            }
            2 => {
                ctx.count("graph_leg");
                graph_cancel(src, ctx)
            }
            _ => {
                ctx.count("graph_leg");
                graph_fail(src, ctx)
            }
        }
    }
}

/// Block wrapper that cancels the graph from inside its k-th call.
pub struct CancelAt {
    pub inner: Box<dyn Block + Send>,
    pub token: Arc<Mutex<Option<rustradio::graph::CancellationToken>>>,
    pub k: u64,
    pub calls: u64,
    pub probe: Arc<CancelProbe>,
}
impl rustradio::block::BlockName for CancelAt {
    fn block_name(&self) -> &str {
        self.inner.block_name()
    }
}
impl rustradio::block::BlockEOF for CancelAt {
    fn eof(&mut self) -> bool {
        self.inner.eof()
    }
}
impl Block for CancelAt {
    fn work(&mut self) -> rustradio::Result<rustradio::block::BlockRet> {
        self.calls += 1;
        if self.calls == self.k {
            if let Some(t) = self.token.lock().unwrap().as_ref() {
                t.cancel();
                self.probe.cancelled.store(true, Ordering::SeqCst);
            }
        }
        self.inner.work()
    }
}

fn graph_cancel(src: &mut Src, ctx: &mut RunCtx) -> RunResult {
    let small = *src.pick(&[4096usize, 8192]);
    let mut recipe = gen_recipe(src, small, 3);
    recipe.infinite = src.chance(2, 3);
    let k = src.range(1, 12) as u64;
    let n = recipe.nblocks();
    let who = src.below(n);
    let mut order: Vec<usize> = (0..n).collect();
    for i in (1..n).rev() {
        let j = src.below(i + 1);
        order.swap(i, j);
    }
    ctx.ev(|| format!("C07 graph-cancel recipe={} block {who} cancels on its call {k}, order {order:?}", recipe.describe()));
    if ctx.sample.is_none() {
        ctx.sample = Some(json!({"runner": "Graph", "fault": format!("block {who} cancels inside its call {k}"), "recipe": recipe.describe(), "order": order}));
    }
    let solo = Solo::new();
    let probe = Arc::new(CancelProbe::default());
    let token_slot = Arc::new(Mutex::new(None));
    let mut counters: Vec<(String, Arc<AtomicU64>)> = Vec::new();
    let r = solo.with(|| {
        catch(|| {
            rustradio::verif::set_stream_size(small);
            let mut built = build(&recipe);
            rustradio::verif::set_stream_size(0);
            let mut blocks: Vec<Option<Box<dyn Block + Send>>> = Vec::new();
            for (i, b) in std::mem::take(&mut built.blocks).into_iter().enumerate() {
                let name = b.block_name().to_string();
                let b: Box<dyn Block + Send> = if i == who {
                    Box::new(CancelAt { inner: b, token: token_slot.clone(), k, calls: 0, probe: probe.clone() })
                } else {
                    b
                };
                let (c, _calls, after) = Counted::new(b, probe.clone());
                counters.push((name, after));
                blocks.push(Some(Box::new(c)));
            }
            let mut g = Graph::new();
            for &i in &order {
                g.add(blocks[i].take().unwrap());
            }
            *token_slot.lock().unwrap() = Some(g.cancel_token());
            // Guard against a runner that ignores the token on an infinite
            // source: the wrapper blocks count calls; bail out via panic.
            g.run().map_err(|e| e.to_string())
        })
    });
    ctx.hash.add_bytes(format!("{}{who}{k}{order:?}", recipe.describe()).as_bytes());
    ctx.sim_ns += solo.state().clock_ns;
    let fired = probe.cancelled.load(Ordering::SeqCst);
    if fired {
        ctx.nontrivial = true;
        ctx.count("fault:cancel");
    } else {
        ctx.count("cancel_point_not_reached");
    }
    match r {
        Err(p) => Err(Violation::new(format!("C07:graph-cancel-panicked:{}", p.site()), format!("Graph::run() panicked: {} at {}", p.msg, p.loc))),
        Ok(Err(e)) => Err(Violation::new("C07:graph-cancel-run-err", format!("cancelled Graph::run() returned an error: {e}"))),
        Ok(Ok(())) => {
            for (name, after) in &counters {
                let a = after.load(Ordering::SeqCst);
                // The cancelling block's own call counts as one (it is in progress).
                if a > 1 {
                    return Err(Violation::new("C07:graph-work-after-cancel", format!("block {name} was invoked {a} times after cancel() (bound 1: the rest of the current pass)")));
                }
                if a > 0 {
                    ctx.count("work_call_after_cancel");
                }
            }
            Ok(())
        }
    }
}

fn graph_fail(src: &mut Src, ctx: &mut RunCtx) -> RunResult {
    let small = *src.pick(&[4096usize, 8192]);
    let mut recipe = gen_recipe(src, small, 3);
    let pos = src.below(recipe.stages.len() + 1);
    let k = src.range(1, 6) as u64;
    recipe.stages.insert(pos, Stage::Fail(k));
    if recipe.src_len == 0 {
        recipe.src_len = 7;
    }
    recipe.infinite = src.chance(1, 3);
    let n = recipe.nblocks();
    let mut order: Vec<usize> = (0..n).collect();
    if !src.chance(1, 3) {
        for i in (1..n).rev() {
            let j = src.below(i + 1);
            order.swap(i, j);
        }
    }
    // Sometimes the graph is also cancelled: by the failing block itself right
    // before it fails, or by another block at some call of its own.
    let cancel_too: Option<(usize, u64)> = if src.chance(1, 3) {
        Some(if src.coin() { (usize::MAX, k) } else { (src.below(n), src.range(1, 8) as u64) })
    } else {
        None
    };
    ctx.ev(|| format!("C07 graph-fail recipe={} order {order:?} cancel_too={cancel_too:?}", recipe.describe()));
    if ctx.sample.is_none() {
        ctx.sample = Some(json!({"runner": "Graph", "fault": format!("stage {pos} fails on call {k}"), "recipe": recipe.describe(), "order": order}));
    }
    let solo = Solo::new();
    let mut flag = None;
    let mut cancelled = false;
    let r = solo.with(|| {
        catch(|| {
            rustradio::verif::set_stream_size(small);
            let mut built = build(&recipe);
            rustradio::verif::set_stream_size(0);
            flag = built.fail_flags.first().cloned();
            let token_slot = Arc::new(Mutex::new(None));
            let probe = Arc::new(CancelProbe::default());
            let mut blocks: Vec<Option<Box<dyn Block + Send>>> = std::mem::take(&mut built.blocks)
                .into_iter()
                .enumerate()
                .map(|(i, b)| {
                    let wrap = match cancel_too {
                        Some((usize::MAX, _)) => b.block_name() == "FailAt",
                        Some((w, _)) => w == i,
                        None => false,
                    };
                    if wrap {
                        let b: Box<dyn Block + Send> = Box::new(CancelAt { inner: b, token: token_slot.clone(), k: cancel_too.unwrap().1, calls: 0, probe: probe.clone() });
                        Some(b)
                    } else {
                        Some(b)
                    }
                })
                .collect();
            let mut g = Graph::new();
            for &i in &order {
                g.add(blocks[i].take().unwrap());
            }
            *token_slot.lock().unwrap() = Some(g.cancel_token());
            let r = g.run().map_err(|e| e.to_string());
            cancelled = probe.cancelled.load(Ordering::SeqCst);
            r
        })
    });
    ctx.hash.add_bytes(format!("{}{order:?}", recipe.describe()).as_bytes());
    ctx.sim_ns += solo.state().clock_ns;
    let reached = flag.map(|f| f.load(Ordering::SeqCst)).unwrap_or(false);
    if reached {
        ctx.nontrivial = true;
        ctx.count("fault:block_error");
        if cancelled {
            ctx.count("block_error_in_a_cancelled_graph");
        }
    }
    match r {
        Err(p) => Err(Violation::new(format!("C07:graph-fail-panicked:{}", p.site()), format!("Graph::run() panicked instead of returning the block's error: {} at {}", p.msg, p.loc))),
        Ok(Err(e)) => {
            if !e.contains(FAIL_MARK) {
                return Err(Violation::new("C07:graph-wrong-error", format!("run() returned an error that is not the failing block's: {e}")));
            }
            ctx.count("block_error_returned");
            Ok(())
        }
        Ok(Ok(())) => {
            if reached {
                return Err(Violation::new("C07:graph-error-swallowed", "Graph::run() returned Ok(()) although a block's work() had failed"));
            }
            ctx.count("failing_call_not_reached");
            Ok(())
        }
    }
}

#[allow(dead_code)]
fn _unused(_: &Sched, _: &SchedCfg) {}
