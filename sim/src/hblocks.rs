//! Harness-defined blocks used inside generated graphs.

use std::sync::atomic::{AtomicBool, AtomicU64, Ordering};
use std::sync::{Arc, Mutex};

use rustradio::block::{Block, BlockEOF, BlockName, BlockRet};
use rustradio::stream::{NCReadStream, ReadStream, WriteStream};
use rustradio::{Error, Result};

/// Sink that stores everything it reads.
pub struct Collector<T: Copy> {
    src: ReadStream<T>,
    pub store: Arc<Mutex<Vec<T>>>,
}

impl<T: Copy> Collector<T> {
    pub fn new(src: ReadStream<T>) -> (Self, Arc<Mutex<Vec<T>>>) {
        let store = Arc::new(Mutex::new(Vec::new()));
        (
            Self {
                src,
                store: store.clone(),
            },
            store,
        )
    }
}

impl<T: Copy> BlockName for Collector<T> {
    fn block_name(&self) -> &str {
        "Collector"
    }
}
impl<T: Copy> BlockEOF for Collector<T> {
    fn eof(&mut self) -> bool {
        self.src.eof()
    }
}
impl<T: Copy> Block for Collector<T> {
    fn work(&mut self) -> Result<BlockRet> {
        let (i, _tags) = self.src.read_buf()?;
        let n = i.len();
        if n == 0 {
            return Ok(BlockRet::WaitForStream(&self.src, 1));
        }
        self.store.lock().unwrap().extend_from_slice(i.slice());
        i.consume(n);
        Ok(BlockRet::Again)
    }
}

/// Packet sink.
pub struct CollectorNc<P> {
    src: NCReadStream<P>,
    pub store: Arc<Mutex<Vec<P>>>,
}

impl<P> CollectorNc<P> {
    pub fn new(src: NCReadStream<P>) -> (Self, Arc<Mutex<Vec<P>>>) {
        let store = Arc::new(Mutex::new(Vec::new()));
        (
            Self {
                src,
                store: store.clone(),
            },
            store,
        )
    }
}
impl<P> BlockName for CollectorNc<P> {
    fn block_name(&self) -> &str {
        "CollectorNc"
    }
}
impl<P> BlockEOF for CollectorNc<P> {
    fn eof(&mut self) -> bool {
        self.src.eof()
    }
}
impl<P> Block for CollectorNc<P> {
    fn work(&mut self) -> Result<BlockRet> {
        match self.src.pop() {
            Some((p, _)) => {
                self.store.lock().unwrap().push(p);
                Ok(BlockRet::Again)
            }
            None => Ok(BlockRet::WaitForStream(&self.src, 1)),
        }
    }
}

/// Shared observation point for cancellation experiments.
#[derive(Default)]
pub struct CancelProbe {
    /// Set by the cancelling thread right after `cancel()` returned.
    pub cancelled: AtomicBool,
}

/// Wraps a block, counting work() calls started after cancellation.
pub struct Counted {
    inner: Box<dyn Block + Send>,
    probe: Arc<CancelProbe>,
    pub calls: Arc<AtomicU64>,
    pub calls_after_cancel: Arc<AtomicU64>,
}

impl Counted {
    pub fn new(inner: Box<dyn Block + Send>, probe: Arc<CancelProbe>) -> (Self, Arc<AtomicU64>, Arc<AtomicU64>) {
        let calls = Arc::new(AtomicU64::new(0));
        let after = Arc::new(AtomicU64::new(0));
        (
            Self {
                inner,
                probe,
                calls: calls.clone(),
                calls_after_cancel: after.clone(),
            },
            calls,
            after,
        )
    }
}
impl BlockName for Counted {
    fn block_name(&self) -> &str {
        self.inner.block_name()
    }
}
impl BlockEOF for Counted {
    fn eof(&mut self) -> bool {
        self.inner.eof()
    }
}
impl Block for Counted {
    fn work(&mut self) -> Result<BlockRet> {
        self.calls.fetch_add(1, Ordering::SeqCst);
        if self.probe.cancelled.load(Ordering::SeqCst) {
            let n = self.calls_after_cancel.fetch_add(1, Ordering::SeqCst);
            if n > 500 {
                // Runaway guard: the runner ignores the cancellation.
                return Err(Error::msg("verif-runaway: runner keeps invoking blocks after cancel()"));
            }
        }
        self.inner.work()
    }
}

pub const FAIL_MARK: &str = "verif-injected-block-failure";

/// Pass-through block that fails on its k-th work() call (fault injection).
pub struct FailAt<T: Copy> {
    src: ReadStream<T>,
    dst: WriteStream<T>,
    k: u64,
    calls: u64,
    pub failed: Arc<AtomicBool>,
}

impl<T: Copy> FailAt<T> {
    pub fn new(src: ReadStream<T>, k: u64) -> (Self, ReadStream<T>, Arc<AtomicBool>) {
        let (dst, r) = rustradio::stream::new_stream();
        let failed = Arc::new(AtomicBool::new(false));
        (
            Self {
                src,
                dst,
                k,
                calls: 0,
                failed: failed.clone(),
            },
            r,
            failed,
        )
    }
}
impl<T: Copy> BlockName for FailAt<T> {
    fn block_name(&self) -> &str {
        "FailAt"
    }
}
impl<T: Copy> BlockEOF for FailAt<T> {
    fn eof(&mut self) -> bool {
        self.src.eof()
    }
}
impl<T: Copy> Block for FailAt<T> {
    fn work(&mut self) -> Result<BlockRet> {
        self.calls += 1;
        if self.calls == self.k {
            self.failed.store(true, Ordering::SeqCst);
            // The kind of error value must make no difference to the runner.
            return Err(match self.k % 3 {
                0 => Error::Io(std::io::Error::new(std::io::ErrorKind::Interrupted, FAIL_MARK)),
                1 => Error::Io(std::io::Error::other(FAIL_MARK)),
                _ => Error::msg(FAIL_MARK),
            });
        }
        let (i, tags) = self.src.read_buf()?;
        if i.is_empty() {
            return Ok(BlockRet::WaitForStream(&self.src, 1));
        }
        let mut o = self.dst.write_buf()?;
        if o.is_empty() {
            return Ok(BlockRet::WaitForStream(&self.dst, 1));
        }
        let n = i.len().min(o.len());
        o.slice()[..n].copy_from_slice(&i.slice()[..n]);
        let tags: Vec<_> = tags.into_iter().filter(|t| t.pos() < n).collect();
        o.produce(n, &tags);
        i.consume(n);
        Ok(BlockRet::Again)
    }
}

/// Pass-through that moves at most one frame of `k` samples per call and then
/// reports a wait on its input from that same call, even when more input is
/// already there (the skeleton in doc/writing-a-block.md: "need more input"
/// after producing). With `sum` it is rate-decreasing instead: it consumes a
/// whole frame of `k` and emits its first sample only.
pub struct Framed<T: Copy> {
    src: ReadStream<T>,
    dst: WriteStream<T>,
    k: usize,
    first_only: bool,
}

impl<T: Copy> Framed<T> {
    pub fn new(src: ReadStream<T>, k: usize, first_only: bool) -> (Self, ReadStream<T>) {
        let (dst, r) = rustradio::stream::new_stream();
        (Self { src, dst, k: k.max(1), first_only }, r)
    }
}
impl<T: Copy> BlockName for Framed<T> {
    fn block_name(&self) -> &str {
        "Framed"
    }
}
impl<T: Copy> BlockEOF for Framed<T> {
    fn eof(&mut self) -> bool {
        self.src.eof()
    }
}
impl<T: Copy> Block for Framed<T> {
    fn work(&mut self) -> Result<BlockRet> {
        let (i, tags) = self.src.read_buf()?;
        let mut o = self.dst.write_buf()?;
        if self.first_only {
            if i.len() < self.k {
                return Ok(BlockRet::WaitForStream(&self.src, self.k));
            }
            if o.is_empty() {
                return Ok(BlockRet::WaitForStream(&self.dst, 1));
            }
            o.slice()[0] = i.slice()[0];
            o.produce(1, &[]);
            i.consume(self.k);
            return Ok(BlockRet::WaitForStream(&self.src, self.k));
        }
        if i.is_empty() {
            return Ok(BlockRet::WaitForStream(&self.src, 1));
        }
        if o.is_empty() {
            return Ok(BlockRet::WaitForStream(&self.dst, 1));
        }
        let n = i.len().min(o.len()).min(self.k);
        o.slice()[..n].copy_from_slice(&i.slice()[..n]);
        let tags: Vec<_> = tags.into_iter().filter(|t| t.pos() < n).collect();
        o.produce(n, &tags);
        i.consume(n);
        Ok(BlockRet::WaitForStream(&self.src, 1))
    }
}

/// Pass-through that "cooks" before every move: with input waiting and room in
/// the output it first answers `Pending` `arm` times (no stream activity can
/// help it, it says; the runner has to come back by itself), then moves what
/// it can.
pub struct Lazy<T: Copy> {
    src: ReadStream<T>,
    dst: WriteStream<T>,
    arm: usize,
    left: usize,
    /// Answer `Again` instead of `Pending` while cooking: a call that only
    /// changed state and wants to be called again (the first "good example" in
    /// the documentation of `BlockRet::Again`; FileSource does it on rewind).
    again: bool,
}

impl<T: Copy> Lazy<T> {
    pub fn new(src: ReadStream<T>, arm: usize, again: bool) -> (Self, ReadStream<T>) {
        let (dst, r) = rustradio::stream::new_stream();
        (Self { src, dst, arm, left: arm, again }, r)
    }
}
impl<T: Copy> BlockName for Lazy<T> {
    fn block_name(&self) -> &str {
        "Lazy"
    }
}
impl<T: Copy> BlockEOF for Lazy<T> {
    fn eof(&mut self) -> bool {
        self.src.eof()
    }
}
impl<T: Copy> Block for Lazy<T> {
    fn work(&mut self) -> Result<BlockRet> {
        let (i, tags) = self.src.read_buf()?;
        if i.is_empty() {
            return Ok(BlockRet::WaitForStream(&self.src, 1));
        }
        let mut o = self.dst.write_buf()?;
        if o.is_empty() {
            return Ok(BlockRet::WaitForStream(&self.dst, 1));
        }
        if self.left > 0 {
            self.left -= 1;
            return Ok(if self.again { BlockRet::Again } else { BlockRet::Pending });
        }
        self.left = self.arm;
        let n = i.len().min(o.len());
        o.slice()[..n].copy_from_slice(&i.slice()[..n]);
        let tags: Vec<_> = tags.into_iter().filter(|t| t.pos() < n).collect();
        o.produce(n, &tags);
        i.consume(n);
        Ok(BlockRet::Again)
    }
}


/// Takes a batch, keeps it for a while ("a background process may still
/// produce": `Pending`, or the state-change `Again`), then emits it. Its
/// `eof()` is true once its input has ended and is drained AND it holds
/// nothing any more ("done, and will never return any more data", as the
/// trait documents it): the multi-threaded runner asks `eof()` after every
/// wait verdict, also one on a full output.
pub struct Hold<T: Copy> {
    src: ReadStream<T>,
    dst: WriteStream<T>,
    k: usize,
    arm: usize,
    left: usize,
    held: Vec<T>,
    again: bool,
}

impl<T: Copy> Hold<T> {
    pub fn new(src: ReadStream<T>, k: usize, arm: usize, again: bool) -> (Self, ReadStream<T>) {
        let (dst, r) = rustradio::stream::new_stream();
        (Self { src, dst, k, arm, left: 0, held: Vec::new(), again }, r)
    }
}
impl<T: Copy> BlockName for Hold<T> {
    fn block_name(&self) -> &str {
        "Hold"
    }
}
impl<T: Copy> BlockEOF for Hold<T> {
    fn eof(&mut self) -> bool {
        self.held.is_empty() && self.src.eof()
    }
}
impl<T: Copy> Block for Hold<T> {
    fn work(&mut self) -> Result<BlockRet> {
        let busy = if self.again { BlockRet::Again } else { BlockRet::Pending };
        if !self.held.is_empty() {
            if self.left > 0 {
                self.left -= 1;
                return Ok(busy);
            }
            let mut o = self.dst.write_buf()?;
            if o.is_empty() {
                return Ok(BlockRet::WaitForStream(&self.dst, 1));
            }
            let n = self.held.len().min(o.len());
            o.slice()[..n].copy_from_slice(&self.held[..n]);
            o.produce(n, &[]);
            self.held.drain(..n);
            return Ok(BlockRet::Again);
        }
        let (i, _tags) = self.src.read_buf()?;
        if i.is_empty() {
            return Ok(BlockRet::WaitForStream(&self.src, 1));
        }
        let n = i.len().min(self.k);
        self.held.extend_from_slice(&i.slice()[..n]);
        i.consume(n);
        self.left = self.arm;
        Ok(busy)
    }
}
