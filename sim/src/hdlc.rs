//! HDLC transmitter model (flags, LSB-first bytes, CRC-16/X.25, bit stuffing)
//! written from the protocol description, independent of the deframer's code.

pub const FLAG: [u8; 8] = [0, 1, 1, 1, 1, 1, 1, 0];

/// CRC-16/X.25, bitwise (poly 0x1021 reflected = 0x8408, init 0xffff, xorout 0xffff).
pub fn crc16_x25(data: &[u8]) -> u16 {
    let mut crc: u16 = 0xffff;
    for &b in data {
        crc ^= b as u16;
        for _ in 0..8 {
            if crc & 1 == 1 {
                crc = (crc >> 1) ^ 0x8408;
            } else {
                crc >>= 1;
            }
        }
    }
    !crc
}

pub fn bytes_to_bits_lsb(data: &[u8]) -> Vec<u8> {
    let mut v = Vec::with_capacity(data.len() * 8);
    for &b in data {
        for i in 0..8 {
            v.push((b >> i) & 1);
        }
    }
    v
}

pub fn stuff(bits: &[u8]) -> Vec<u8> {
    let mut out = Vec::with_capacity(bits.len() + bits.len() / 5);
    let mut ones = 0;
    for &b in bits {
        out.push(b);
        if b == 1 {
            ones += 1;
            if ones == 5 {
                out.push(0);
                ones = 0;
            }
        } else {
            ones = 0;
        }
    }
    out
}

/// Payload (+ CRC if `crc`) as stuffed bits, without flags.
pub fn body_bits(payload: &[u8], crc: bool) -> Vec<u8> {
    let mut bytes = payload.to_vec();
    if crc {
        let c = crc16_x25(payload);
        bytes.push((c & 0xff) as u8);
        bytes.push((c >> 8) as u8);
    }
    stuff(&bytes_to_bits_lsb(&bytes))
}

/// `nflags` opening flags, the stuffed body, one closing flag.
pub fn frame_bits(payload: &[u8], crc: bool, nflags: usize) -> Vec<u8> {
    let mut v = Vec::new();
    for _ in 0..nflags.max(1) {
        v.extend(FLAG);
    }
    v.extend(body_bits(payload, crc));
    v.extend(FLAG);
    v
}
