//! iosim: checks that need the syscall seam. C14 (byte formats and read
//! segmentation), C17 (file sink modes and crash consistency), C18 (mappings
//! and descriptors).

use std::io::Write;
use std::sync::Arc;

use rustradio::block::Block;
use rustradio::blocks::*;
use rustradio::circular_buffer::Buffer;
use rustradio::file_sink::Mode;
use rustradio::stream::{new_nocopy_stream, new_stream};
use rustradio::{Complex, Sample};
use serde_json::{Value, json};

use crate::blocks::au_bytes;
use crate::c16::{sigmf_archive, sigmf_meta};
use crate::engine::{Budget, Check, RunCtx, RunResult, Tier, Violation, catch};
use crate::rig::*;
use crate::rt::Solo;
use crate::src::Src;
use crate::sys::{self, IoPlan};

fn gen_chunks(src: &mut Src, sample: usize) -> Vec<usize> {
    match src.below(7) {
        0 => vec![],  // unlimited
        1 => vec![1], // byte at a time
        2 => vec![sample.max(2) - 1],
        3 => vec![sample + 1],
        4 => (0..src.range(1, 6)).map(|_| src.range(1, 3 * sample + 1)).collect(),
        5 => (0..src.range(1, 6)).map(|_| src.range(1, 700)).collect(),
        _ => vec![src.range(1, 4096)],
    }
}

fn raw_bits(kind: usize, src: &mut Src) -> Vec<u8> {
    // One sample of the given type with arbitrary bit pattern (incl. NaN payloads).
    let n = [1usize, 4, 4, 4, 8][kind];
    (0..n).map(|_| src.below(256) as u8).collect()
}

fn drive_sink(mut blk: Box<dyn Block + Send>, mut port: Box<dyn InPort>, solo: &Arc<Solo>, src: &mut Src) -> Result<(), String> {
    let mut guard = 0;
    while port.fed() < port.total() || port.backlog() > 0 {
        guard += 1;
        if guard > 100_000 {
            return Err("sink did not drain its input".into());
        }
        let left = port.total() - port.fed();
        if left > 0 && port.space() > 0 {
            let k = match src.below(4) {
                0 => 1,
                1 => src.range(1, 7.min(left)),
                2 => left,
                _ => src.range(1, left),
            };
            port.feed(k);
        }
        let mut c = Case::new("sink", String::new(), blk);
        c.ins = vec![port];
        let st = step(&mut c, solo, false);
        blk = c.block.take().unwrap();
        port = c.ins.pop().unwrap();
        match st.verdict {
            Verdict::Panic(p) => return Err(format!("sink panicked: {} at {}", p.msg, p.loc)),
            Verdict::Err(e) => return Err(format!("sink failed: {e}")),
            _ => {}
        }
    }
    Ok(())
}

fn drive_source(case: &mut Case, solo: &Arc<Solo>, src: &mut Src, want_items: usize) -> Result<(), String> {
    let mut guard = 0;
    loop {
        guard += 1;
        if guard > 400_000 {
            return Err(format!("source did not reach EOF ({} of {want_items} items)", case.outs[0].collected()));
        }
        if case.outs[0].available() > 0 && (src.chance(1, 2) || case.outs[0].available() == case.outs[0].capacity()) {
            let a = case.outs[0].available();
            let m = if src.coin() { a } else { src.range(1, a) };
            case.outs[0].drain(m);
        }
        let st = step(case, solo, false);
        match st.verdict {
            Verdict::Panic(p) => return Err(format!("source panicked: {} at {}", p.msg, p.loc)),
            Verdict::Err(e) => return Err(format!("source failed: {e}")),
            Verdict::Eof => break,
            _ => {}
        }
        if case.outs[0].collected() + case.outs[0].available() > want_items + 8 {
            break;
        }
    }
    case.outs[0].drain(usize::MAX);
    Ok(())
}

// ===========================================================================
// C14

pub struct FormatCheck;

impl Check for FormatCheck {
    fn id(&self) -> &'static str {
        "C14"
    }
    fn level(&self) -> &'static str {
        "fault_enumeration"
    }
    fn rule(&self) -> String {
        "one run = one of: (1) Sample::serialize/parse identity on arbitrary bit patterns of u8/u32/i32/f32/Complex; (2) FileSink -> file -> FileSource round trip of 0..3*capacity+r samples (streams of 4-8 KiB; one run in 40 a default-size stream with more than 1 MiB in one window) with seeded short-write and short-read plans injected at the write()/read() symbols (1-byte, sample-1, sample+1, random, large) and seeded drip schedules on both sides; (3) SigMFSource<Complex|Float|i32|u8> from a recording and from a tar archive (seeded member order, unrelated members, member paths up to 135 bytes, with and without a stated sample rate) under short reads; (4) AuEncode -> bytes -> AuDecode under chunked delivery, compared with the PCM16 quantisation; (5) TcpSource over a loopback connection whose recv() results are cut to a seeded segmentation (MSG_WAITALL makes each cut exact), incl. 1-byte reads and cuts inside a sample. \
         Oracle: byte/sample identity with what was written, exact counts. non-trivial = at least one read or write was cut short, or a split fell inside a sample; distinct = hash of the decision list".into()
    }
    fn assumptions(&self) -> Vec<String> {
        vec![
            "EINTR on reads is not injected (the property promises nothing about it)".into(),
            "loopback TCP inside the sandbox; the peer writes everything and closes before the block reads".into(),
            "NaN payloads must survive the codecs bit for bit (raw byte comparison, no canonicalisation here)".into(),
        ]
    }
    fn real_vs_stub(&self) -> Value {
        json!({"real": ["Sample codecs, FileSink, FileSource, SigMFSource, tar crate, AuEncode, AuDecode, TcpSource, kernel file system and loopback TCP"], "simulated": ["read()/recv()/write() result sizes (syscall seam)", "delivery schedules"], "stub": ["TCP peer = harness thread"]})
    }
    fn budget(&self, tier: Tier) -> Budget {
        match tier {
            Tier::Quick => Budget { runs: 40000, max_secs: 40.0 },
            Tier::Thorough => Budget { runs: 1_000_000, max_secs: 900.0 },
        }
    }
    fn required(&self, _tier: Tier) -> Vec<&'static str> {
        vec!["fault:short_read", "fault:short_write", "short_read_inside_sample", "tcp_leg", "sigmf_leg", "au_leg", "file_leg", "codec_leg"]
    }
    fn run(&self, src: &mut Src, ctx: &mut RunCtx) -> RunResult {
        let leg = src.below(8);
        let solo = Solo::new();
        let r = match leg {
            0 => codec_leg(src, ctx),
            1 | 2 => file_leg(src, ctx, &solo),
            3 | 4 => sigmf_leg(src, ctx, &solo),
            5 => au_leg(src, ctx, &solo),
            _ => tcp_leg(src, ctx, &solo),
        };
        sys::disarm();
        rustradio::verif::set_stream_size(0);
        for v in &src.log {
            ctx.hash.add(*v);
        }
        match r {
            Ok(()) => Ok(()),
            Err(v) => ctx.tolerate(v),
        }
    }
}

fn codec_leg(src: &mut Src, ctx: &mut RunCtx) -> RunResult {
    ctx.count("codec_leg");
    ctx.nontrivial = true;
    for _ in 0..64 {
        let kind = src.below(5);
        let raw = raw_bits(kind, src);
        let back: Result<Vec<u8>, String> = match catch(|| -> Result<Vec<u8>, String> {
            Ok(match kind {
                0 => u8::parse(&raw).map_err(|e| e.to_string())?.serialize(),
                1 => u32::parse(&raw).map_err(|e| e.to_string())?.serialize(),
                2 => i32::parse(&raw).map_err(|e| e.to_string())?.serialize(),
                3 => f32::parse(&raw).map_err(|e| e.to_string())?.serialize(),
                _ => Complex::parse(&raw).map_err(|e| e.to_string())?.serialize(),
            })
        }) {
            Ok(r) => r,
            Err(p) => return Err(Violation::new(format!("C14:codec-panic:{}", p.site()), format!("parse/serialize panicked on {raw:02x?}: {}", p.msg))),
        };
        match back {
            Ok(b) if b == raw => {}
            Ok(b) => return Err(Violation::new("C14:codec-roundtrip", format!("type #{kind}: bytes {raw:02x?} parse+serialize to {b:02x?}"))),
            Err(e) => return Err(Violation::new("C14:codec-err", format!("type #{kind}: parse of {raw:02x?} failed: {e}"))),
        }
        // And the other direction on values.
        let ok = match kind {
            1 => {
                let v = u32::from_le_bytes([raw[0], raw[1], raw[2], raw[3]]);
                v.serialize() == raw && u32::size() == 4
            }
            3 => {
                let v = f32::from_le_bytes([raw[0], raw[1], raw[2], raw[3]]);
                v.serialize() == raw && f32::size() == 4
            }
            4 => Complex::size() == 8,
            _ => true,
        };
        if !ok {
            return Err(Violation::new("C14:codec-layout", format!("type #{kind}: serialisation is not the little-endian value")));
        }
    }
    if ctx.sample.is_none() {
        ctx.sample = Some(json!({"leg": "codec", "cases": 64}));
    }
    Ok(())
}

fn file_leg(src: &mut Src, ctx: &mut RunCtx, solo: &Arc<Solo>) -> RunResult {
    ctx.count("file_leg");
    let kind = src.below(4); // 0 u8, 1 u32, 2 f32, 3 Complex
    let esz = [1usize, 4, 4, 8][kind];
    // Now and then a stream of the default size with more than a megabyte in
    // one window (content from a generator, not one decision per byte).
    let big = src.chance(1, 40);
    let small = if big { 0 } else { *src.pick(&[4096usize, 8192]) };
    let cap = if big { 4_096_000 / esz } else { small / esz };
    let n = match src.below(7) {
        _ if big => (1 << 20) / esz + 1 + src.below(cap),
        0 => 0,
        1 => 1,
        2 => cap - 1,
        3 => cap + 1,
        4 => 3 * cap + src.below(17),
        _ => src.range(1, 2 * cap),
    };
    let raw: Vec<u8> = if big {
        ctx.count("file_leg_default_size_stream");
        let mut r = crate::src::Rng::new(src.bits());
        (0..n * esz).map(|_| (r.next() >> 56) as u8).collect()
    } else {
        (0..n * esz).map(|_| src.below(256) as u8).collect()
    };
    let big_chunks = |src: &mut Src| if src.coin() { vec![src.range(60_000, 1 << 21)] } else { vec![] };
    let wchunks = if big { big_chunks(src) } else { gen_chunks(src, esz) };
    let rchunks = if big { big_chunks(src) } else { gen_chunks(src, esz) };
    let mode = src.below(3);
    ctx.ev(|| format!("C14 file leg type #{kind} n {n} stream {small} write_chunks {wchunks:?} read_chunks {rchunks:?} mode {mode}"));
    if ctx.sample.is_none() {
        ctx.sample = Some(json!({"leg": "FileSink->FileSource", "type": (["u8", "u32", "f32", "Complex"][kind]), "samples": n, "write_chunks": wchunks, "read_chunks": rchunks}));
    }
    let dir = tempfile::tempdir().map_err(|e| Violation::new("HARNESS-PANIC tempdir", e.to_string()))?;
    let path = dir.path().join("out.bin");
    // What is at the path beforehand: nothing (Create), stale content that
    // must disappear (Overwrite: shorter, longer, not sample-aligned), or whole
    // samples that must stay in front of the new ones (Append).
    let pre: Option<Vec<u8>> = match mode {
        1 if src.coin() => {
            let l = match src.below(4) {
                0 => 1,
                1 => raw.len() + esz * src.range(1, 9),
                2 => 3 * raw.len() + 5,
                _ => src.below(raw.len() + 2),
            };
            if big {
                let mut r = crate::src::Rng::new(src.bits());
                Some((0..l).map(|_| (r.next() >> 56) as u8).collect())
            } else {
                Some((0..l).map(|_| src.below(256) as u8).collect())
            }
        }
        2 => Some((0..esz * src.below(9)).map(|_| src.below(256) as u8).collect()),
        _ => None,
    };
    if let Some(p) = &pre {
        std::fs::write(&path, p).map_err(|e| Violation::new("HARNESS-PANIC write", e.to_string()))?;
        if mode == 1 && p.len() > raw.len() {
            ctx.count("overwrite_of_a_longer_file");
        }
    }
    // The sample bytes the file must hold afterwards, and the source must read.
    let new_raw = raw;
    let raw: Vec<u8> = if mode == 2 { [pre.clone().unwrap_or_default(), new_raw.clone()].concat() } else { new_raw.clone() };
    let n_total = raw.len() / esz;
    let m = || match mode {
        0 => Mode::Create,
        1 => Mode::Overwrite,
        _ => Mode::Append,
    };
    macro_rules! roundtrip {
        ($t:ty) => {{
            let data: Vec<$t> = new_raw.chunks_exact(esz).map(|c| <$t as Sample>::parse(c).unwrap()).collect();
            // --- sink side
            let res = solo.with(|| -> Result<(), String> {
                rustradio::verif::set_stream_size(small);
                let (p, r) = StreamIn::new(data.clone(), vec![]);
                p.preroll(src.below(p.capacity()));
                sys::arm(IoPlan { write_chunks: wchunks.clone(), eintr_at_write: None, ..Default::default() }, esz);
                let blk = match catch(|| FileSink::<$t>::new(r, &path, m())) {
                    Ok(Ok(b)) => b,
                    Ok(Err(e)) => return Err(format!("FileSink::new failed: {e}")),
                    Err(p) => return Err(format!("FileSink::new panicked: {}", p.msg)),
                };
                let r = drive_sink(Box::new(blk), p, solo, src);
                let st = sys::disarm();
                ctx.add("fault:short_write", st.short_writes as u64);
                if st.short_writes > 0 {
                    ctx.nontrivial = true;
                }
                r
            });
            rustradio::verif::set_stream_size(0);
            if let Err(e) = res {
                return Err(Violation::new("C14:file-sink-failed", format!("type #{kind}, {n} samples, write chunks {wchunks:?}: {e}")));
            }
            let on_disk = std::fs::read(&path).unwrap_or_default();
            if on_disk != raw {
                let d = crate::rigcheck::first_diff(&raw, &on_disk).unwrap_or(0);
                return Err(Violation::new("C14:file-sink-bytes", format!("type #{kind}: file holds {} bytes, serialised stream {} bytes, first difference at {d} (write chunks {wchunks:?})", on_disk.len(), raw.len())));
            }
            // --- source side
            let res = solo.with(|| -> Result<Vec<u8>, String> {
                rustradio::verif::set_stream_size(small);
                sys::arm(IoPlan { read_chunks: rchunks.clone(), ..Default::default() }, esz);
                let (b, o) = match catch(|| FileSource::<$t>::new(&path)) {
                    Ok(Ok(x)) => x,
                    Ok(Err(e)) => return Err(format!("FileSource::new failed: {e}")),
                    Err(p) => return Err(format!("FileSource::new panicked: {}", p.msg)),
                };
                let mut c = Case::new("FileSource", String::new(), Box::new(b));
                c.outs = vec![StreamOut::new(o)];
                c.outs[0].preroll(src.below(c.outs[0].capacity()));
                let r = drive_source(&mut c, solo, src, n_total);
                let st = sys::disarm();
                ctx.add("fault:short_read", st.short_reads as u64);
                ctx.add("short_read_inside_sample", st.reads_inside_sample as u64);
                if st.short_reads > 0 {
                    ctx.nontrivial = true;
                }
                r?;
                let mut out = Vec::new();
                for s in &c.out_typed::<$t>(0).got {
                    out.extend(s.serialize());
                }
                Ok(out)
            });
            rustradio::verif::set_stream_size(0);
            match res {
                Err(e) => return Err(Violation::new("C14:file-source-failed", format!("type #{kind}, {n} samples, read chunks {rchunks:?}: {e}"))),
                Ok(got) => {
                    if got != raw {
                        let d = crate::rigcheck::first_diff(&raw, &got).unwrap_or(0);
                        return Err(Violation::new("C14:file-source-samples", format!("type #{kind}: read back {} bytes worth of samples, file has {}, first difference at byte {d} (read chunks {rchunks:?})", got.len(), raw.len())));
                    }
                }
            }
        }};
    }
    match kind {
        0 => roundtrip!(u8),
        1 => roundtrip!(u32),
        2 => roundtrip!(f32),
        _ => roundtrip!(Complex),
    }
    Ok(())
}

fn sigmf_leg(src: &mut Src, ctx: &mut RunCtx, solo: &Arc<Solo>) -> RunResult {
    ctx.count("sigmf_leg");
    let archive = src.coin();
    let small = *src.pick(&[4096usize, 8192]);
    // Sample type of the recording: every type the source supports.
    let kind = *src.pick(&[0usize, 0, 1, 2, 3]);
    let (dt, esz) = [("cf32_le", 8usize), ("rf32_le", 4), ("ri32_le", 4), ("ru8_le", 1)][kind];
    let cap = small / esz;
    let n = match src.below(5) {
        0 => 0,
        1 => 1,
        2 => cap + 1,
        3 => 3 * cap + src.below(9),
        _ => src.range(1, 2 * cap),
    };
    let raw: Vec<u8> = (0..n * esz).map(|_| src.below(256) as u8).collect();
    let rchunks = gen_chunks(src, esz);
    // The caller may state the sample rate it expects; the one in the metadata
    // (48000) must then be accepted.
    let expect_rate = src.chance(1, 3);
    let dir = tempfile::tempdir().map_err(|e| Violation::new("HARNESS-PANIC tempdir", e.to_string()))?;
    let path = dir.path().join("capture.sigmf");
    if archive {
        let t = sigmf_archive(src, &sigmf_meta(dt), &raw);
        std::fs::write(&path, t).map_err(|e| Violation::new("HARNESS-PANIC write", e.to_string()))?;
    } else {
        // Half the recordings get their metadata from the crate's own writer.
        if kind == 0 && src.coin() {
            ctx.count("sigmf_meta_by_own_writer");
            match catch(|| rustradio::sigmf::write(dir.path().join("capture.sigmf-meta"), 48000.0, 144_800_000.0)) {
                Ok(Ok(())) => {}
                Ok(Err(e)) => return Err(Violation::new("C14:sigmf-write-failed", format!("sigmf::write failed: {e}"))),
                Err(p) => return Err(Violation::new("C14:sigmf-write-panicked", format!("sigmf::write panicked: {} at {}", p.msg, p.loc))),
            }
        } else if src.chance(1, 3) {
            // Metadata built with the crate's own type and serialiser, as the
            // sigmf example does; no capture segment listed.
            ctx.count("sigmf_meta_serialised_by_the_crate");
            let text = match catch(|| serde_json::to_string(&rustradio::sigmf::SigMF::new(dt.to_string()))) {
                Ok(Ok(t)) => t,
                Ok(Err(e)) => return Err(Violation::new("C14:sigmf-serialise-failed", format!("serialising SigMF::new({dt:?}) failed: {e}"))),
                Err(p) => return Err(Violation::new("C14:sigmf-serialise-panicked", format!("serialising SigMF::new({dt:?}) panicked: {}", p.msg))),
            };
            std::fs::write(dir.path().join("capture.sigmf-meta"), text).map_err(|e| Violation::new("HARNESS-PANIC write", e.to_string()))?;
        } else {
            std::fs::write(dir.path().join("capture.sigmf-meta"), sigmf_meta(dt)).map_err(|e| Violation::new("HARNESS-PANIC write", e.to_string()))?;
        }
        std::fs::write(dir.path().join("capture.sigmf-data"), &raw).map_err(|e| Violation::new("HARNESS-PANIC write", e.to_string()))?;
    }
    ctx.ev(|| format!("C14 sigmf leg archive {archive} type {dt} n {n} read_chunks {rchunks:?} expect_rate {expect_rate}"));
    ctx.count(["sigmf_cf32", "sigmf_rf32", "sigmf_ri32", "sigmf_ru8"][kind]);
    if ctx.sample.is_none() {
        ctx.sample = Some(json!({"leg": if archive {"SigMF archive"} else {"SigMF recording"}, "samples": n, "read_chunks": rchunks}));
    }
    macro_rules! read_as {
        ($t:ty) => {
            solo.with(|| -> Result<Vec<u8>, String> {
                rustradio::verif::set_stream_size(small);
                sys::arm(IoPlan { read_chunks: rchunks.clone(), ..Default::default() }, esz);
                let built = catch(|| {
                        let mut bld = SigMFSourceBuilder::<$t>::new(path.clone());
                        if expect_rate {
                            bld = bld.sample_rate(48000.0);
                        }
                        bld.build()
                    });
                let (b, o) = match built {
                    Ok(Ok(x)) => x,
                    Ok(Err(e)) => return Err(format!("constructor failed on a valid {}: {e}", if archive { "archive" } else { "recording" })),
                    Err(p) => return Err(format!("constructor panicked: {} at {}", p.msg, p.loc)),
                };
                let mut c = Case::new("SigMFSource", String::new(), Box::new(b));
                c.outs = vec![StreamOut::new(o)];
                c.outs[0].preroll(src.below(c.outs[0].capacity()));
                let r = drive_source(&mut c, solo, src, n);
                let st = sys::disarm();
                ctx.add("fault:short_read", st.short_reads as u64);
                ctx.add("short_read_inside_sample", st.reads_inside_sample as u64);
                if st.short_reads > 0 {
                    ctx.nontrivial = true;
                }
                r?;
                let mut out = Vec::new();
                for s in &c.out_typed::<$t>(0).got {
                    out.extend(s.serialize());
                }
                Ok(out)
            })
        };
    }
    let res = match kind {
        0 => read_as!(Complex),
        1 => read_as!(f32),
        2 => read_as!(i32),
        _ => read_as!(u8),
    };
    rustradio::verif::set_stream_size(0);
    match res {
        Err(e) => Err(Violation::new("C14:sigmf-failed", format!("archive={archive}, {n} samples, read chunks {rchunks:?}: {e}"))),
        Ok(got) => {
            if got != raw {
                let d = crate::rigcheck::first_diff(&raw, &got).unwrap_or(0);
                return Err(Violation::new("C14:sigmf-samples", format!("archive={archive}: {} bytes of samples delivered, data member has {}, first difference at byte {d} (read chunks {rchunks:?})", got.len(), raw.len())));
            }
            Ok(())
        }
    }
}

fn au_leg(src: &mut Src, ctx: &mut RunCtx, solo: &Arc<Solo>) -> RunResult {
    ctx.count("au_leg");
    ctx.nontrivial = true;
    let small = *src.pick(&[4096usize, 8192]);
    let n = match src.below(4) {
        0 => 0,
        1 => 1,
        _ => src.range(1, small),
    };
    let data: Vec<f32> = (0..n).map(|_| crate::datagen::gen_f32(src, true)).collect();
    if ctx.sample.is_none() {
        ctx.sample = Some(json!({"leg": "AuEncode->AuDecode", "samples": n}));
    }
    let res = solo.with(|| -> Result<(Vec<u8>, Vec<f32>), String> {
        rustradio::verif::set_stream_size(small);
        // Encode.
        let (p, r) = StreamIn::new(data.clone(), vec![]);
        let (blk, o) = AuEncode::new(r, rustradio::au::Encoding::Pcm16, 44100, 1);
        let mut c = Case::new("AuEncode", String::new(), Box::new(blk));
        c.ins = vec![p];
        c.outs = vec![StreamOut::new(o)];
        let mut f = Vec::new();
        let mut st = RigStats::default();
        let opts = RigOpts { check_retire: false, probe_waits: false, max_actions: 40_000 };
        let done = run_drip(&mut c, solo, src, ctx, &opts, None, &mut f, &mut st);
        if let Some(x) = f.iter().find(|x| x.key.contains("panic") || x.key.ends_with(":err")) {
            return Err(x.msg.clone());
        }
        if !done {
            return Err("encoder run did not complete".into());
        }
        let bytes = c.out_typed::<u8>(0).got.clone();
        // Decode.
        let (p, r) = StreamIn::new(bytes.clone(), vec![]);
        let (blk, o) = AuDecode::new(r, 44100);
        let mut c = Case::new("AuDecode", String::new(), Box::new(blk));
        c.ins = vec![p];
        c.outs = vec![StreamOut::new(o)];
        let mut f = Vec::new();
        let done = run_drip(&mut c, solo, src, ctx, &opts, None, &mut f, &mut st);
        if let Some(x) = f.iter().find(|x| x.key.contains("panic") || x.key.ends_with(":err")) {
            return Err(x.msg.clone());
        }
        if !done {
            return Err("decoder run did not complete".into());
        }
        Ok((bytes, c.out_typed::<f32>(0).got.clone()))
    });
    rustradio::verif::set_stream_size(0);
    match res {
        Err(e) => Err(Violation::new("C14:au-failed", e)),
        Ok((bytes, got)) => {
            let q: Vec<i16> = data
                .iter()
                .map(|x| {
                    let v = x * 32767.0;
                    if v.is_nan() { 0 } else if v >= 32767.0 { 32767 } else if v <= -32768.0 { -32768 } else { v.trunc() as i16 }
                })
                .collect();
            if let Err(e) = crate::blocks::au_check(&bytes, 44100, &q, true) {
                return Err(Violation::new("C14:au-encode-bytes", format!("AuEncode output ({} bytes) is not a valid .au header followed by the big-endian PCM16 of the {n} input samples: {e}", bytes.len())));
            }
            let want: Vec<f32> = q.iter().map(|&s| s as f32 / 32767.0).collect();
            if got.len() != want.len() || got.iter().zip(&want).any(|(a, b)| a.to_bits() != b.to_bits()) {
                return Err(Violation::new("C14:au-roundtrip", format!("decoding the encoder's output gives {} samples, expected {} (the PCM16 quantisation of the input)", got.len(), want.len())));
            }
            Ok(())
        }
    }
}

fn tcp_leg(src: &mut Src, ctx: &mut RunCtx, solo: &Arc<Solo>) -> RunResult {
    ctx.count("tcp_leg");
    let kind = src.below(3); // u32 f32 Complex
    let esz = [4usize, 4, 8][kind];
    let small = *src.pick(&[4096usize, 8192]);
    let n = match src.below(4) {
        0 => 0,
        1 => 1,
        2 => src.range(1, 40),
        _ => src.range(1, small / esz * 2),
    };
    let raw: Vec<u8> = (0..n * esz).map(|_| src.below(256) as u8).collect();
    let rchunks = {
        let c = gen_chunks(src, esz);
        if c.is_empty() { vec![1 << 20] } else { c }
    };
    ctx.ev(|| format!("C14 tcp leg type #{kind} n {n} read_chunks {rchunks:?}"));
    if ctx.sample.is_none() {
        ctx.sample = Some(json!({"leg": "TcpSource", "type": (["u32", "f32", "Complex"][kind]), "samples": n, "recv_chunks": rchunks}));
    }
    let listener = match std::net::TcpListener::bind("127.0.0.1:0") {
        Ok(l) => l,
        Err(e) => return Err(Violation::new("HARNESS-PANIC tcp-bind", e.to_string())),
    };
    let port = listener.local_addr().map(|a| a.port()).unwrap_or(0);
    let payload = raw.clone();
    let peer = std::thread::spawn(move || {
        if let Ok((mut s, _)) = listener.accept() {
            let _ = s.write_all(&payload);
            let _ = s.shutdown(std::net::Shutdown::Write);
            // Keep the socket until the reader is done.
            let mut b = [0u8; 1];
            let _ = std::io::Read::read(&mut s, &mut b);
        }
    });
    macro_rules! run {
        ($t:ty) => {{
            solo.with(|| -> Result<Vec<u8>, String> {
                rustradio::verif::set_stream_size(small);
                let (b, o) = match catch(|| TcpSource::<$t>::new("127.0.0.1", port)) {
                    Ok(Ok(x)) => x,
                    Ok(Err(e)) => return Err(format!("connect failed: {e}")),
                    Err(p) => return Err(format!("constructor panicked: {}", p.msg)),
                };
                let mut c = Case::new("TcpSource", String::new(), Box::new(b));
                c.outs = vec![StreamOut::new(o)];
                c.outs[0].preroll(src.below(c.outs[0].capacity()));
                sys::arm(IoPlan { read_chunks: rchunks.clone(), ..Default::default() }, esz);
                // The source must never be asked to work with a full output
                // here: what it does then is C09's business. A slow reader
                // (one run in three) lets the output fill up and then frees
                // one or two slots at a time, so that reads happen with hardly
                // any room — and with part of a sample carried over.
                let hoard = src.chance(1, 3);
                if hoard {
                    ctx.count("tcp_slow_reader");
                }
                let mut guard = 0;
                let r = loop {
                    guard += 1;
                    if guard > 400_000 {
                        break Err("no EOF from TcpSource".to_string());
                    }
                    if hoard {
                        if c.outs[0].available() == c.outs[0].capacity() {
                            let k = src.range(1, 2);
                            c.outs[0].drain(k);
                        }
                    } else if c.outs[0].available() > 0 {
                        c.outs[0].drain(usize::MAX);
                    }
                    let st = step(&mut c, solo, false);
                    match st.verdict {
                        Verdict::Panic(p) => break Err(format!("work() panicked: {} at {}", p.msg, p.loc)),
                        Verdict::Err(e) => break Err(format!("work() failed: {e}")),
                        Verdict::Eof => break Ok(()),
                        _ => {}
                    }
                };
                let st = sys::disarm();
                ctx.add("fault:short_read", st.short_reads as u64);
                ctx.add("short_read_inside_sample", st.reads_inside_sample as u64);
                if st.reads_inside_sample > 0 {
                    ctx.nontrivial = true;
                }
                r?;
                c.outs[0].drain(usize::MAX);
                let mut out = Vec::new();
                for s in &c.out_typed::<$t>(0).got {
                    out.extend(s.serialize());
                }
                Ok(out)
            })
        }};
    }
    let res = match kind {
        0 => run!(u32),
        1 => run!(f32),
        _ => run!(Complex),
    };
    rustradio::verif::set_stream_size(0);
    sys::disarm();
    let _ = peer.join();
    match res {
        Err(e) => Err(Violation::new(
            if e.contains("panicked") { "C14:tcp-panic" } else { "C14:tcp-failed" },
            format!("TcpSource type #{kind}, {n} samples, recv chunks {rchunks:?}: {e}"),
        )),
        Ok(got) => {
            if got != raw {
                let d = crate::rigcheck::first_diff(&raw, &got).unwrap_or(0);
                return Err(Violation::new("C14:tcp-samples", format!("TcpSource type #{kind}: {} bytes of samples delivered, {} sent, first difference at byte {d} (recv chunks {rchunks:?})", got.len(), raw.len())));
            }
            Ok(())
        }
    }
}

// ===========================================================================
// C17

pub struct FileSinkCheck;

const INITIAL: [&str; 7] = ["absent", "empty", "nonempty", "directory", "missing-parent", "nonempty-13-bytes", "dangling-symlink"];

fn mode_of(i: usize) -> Mode {
    match i {
        0 => Mode::Create,
        1 => Mode::Overwrite,
        _ => Mode::Append,
    }
}

fn setup_initial(dir: &std::path::Path, state: usize) -> (std::path::PathBuf, Vec<u8>) {
    let path = if state == 4 { dir.join("nope").join("out.bin") } else { dir.join("out.bin") };
    // 12 bytes, or 13: not a whole number of 4- or 8-byte samples.
    let pre: Vec<u8> = if state == 5 { b"PRE-EXISTING!".to_vec() } else { b"PRE-EXISTING".to_vec() };
    match state {
        1 => std::fs::write(&path, b"").unwrap(),
        2 | 5 => std::fs::write(&path, &pre).unwrap(),
        3 => std::fs::create_dir(&path).unwrap(),
        6 => std::os::unix::fs::symlink(dir.join("no-such-target"), &path).unwrap(),
        _ => {}
    }
    (path, if state == 2 || state == 5 { pre } else { vec![] })
}

impl Check for FileSinkCheck {
    fn id(&self) -> &'static str {
        "C17"
    }
    fn level(&self) -> &'static str {
        "fault_enumeration"
    }
    fn rule(&self) -> String {
        "enumerated part: modes {Create, Overwrite, Append} x initial states {absent, empty, non-empty (12 bytes), non-empty (13 bytes: not a whole number of samples), directory, missing parent directory, dangling symbolic link} x {FileSink<u8>, NoCopyFileSink, FileSink<Float>, FileSink<u8> whose stream never carries a sample} = 84 cells against the documented truth table (create fails iff the file exists; overwrite leaves exactly the new data; append keeps the old content (also what another writer appended after the sink was opened) and adds, creating the file if absent; directories and missing parents are errors). \
         seeded part: a child process (re-exec of the simulator) streams seeded data through the sink under a seeded feed schedule (4-8 KiB streams; one run in 30 a default-size stream fed more than 1 MiB); the fault plan kills it at the N-th write() on the sink's file after a torn length k (every write index and torn-length class is reachable), or injects short writes / one EINTR without a crash. After each work() the child records how many samples were consumed (acknowledged). Parent oracle: the file is a prefix of pre-existing content + serialised stream and holds at least the acknowledged samples; without a crash it is complete. \
         non-trivial = the child was killed inside a write that followed at least one acknowledged work(); distinct = (mode, sink, write index, torn length, data size)".into()
    }
    fn assumptions(&self) -> Vec<String> {
        vec![
            "crash = process death (SIGKILL), not power loss: data handed to write() survives".into(),
            "root ignores permission bits here, so 'unwritable' is realised as a missing parent directory and as a directory in place of the file".into(),
        ]
    }
    fn real_vs_stub(&self) -> Value {
        json!({"real": ["FileSink, NoCopyFileSink, BufWriter, kernel file system"], "simulated": ["write() result sizes, EINTR, process death at a write boundary with a torn prefix"], "stub": []})
    }
    fn budget(&self, tier: Tier) -> Budget {
        match tier {
            Tier::Quick => Budget { runs: 20000, max_secs: 40.0 },
            Tier::Thorough => Budget { runs: 300_000, max_secs: 900.0 },
        }
    }
    fn fixed_cases(&self) -> u64 {
        84
    }
    fn required(&self, _tier: Tier) -> Vec<&'static str> {
        vec!["fault:crash_at_write", "fault:kill_between_calls", "fault:torn_write", "fault:short_write", "fault:eintr_write", "fault:write_error", "crash_after_ack", "mode_cells"]
    }
    fn run(&self, src: &mut Src, ctx: &mut RunCtx) -> RunResult {
        let sel = src.draw(85);
        let r = if sel < 84 { mode_cell(sel as usize, ctx) } else { crash_run(src, ctx) };
        for v in &src.log {
            ctx.hash.add(*v);
        }
        match r {
            Ok(()) => Ok(()),
            Err(v) => ctx.tolerate(v),
        }
    }
}

fn mode_cell(cell: usize, ctx: &mut RunCtx) -> RunResult {
    let mode = cell % 3;
    let state = (cell / 3) % 7;
    let nocopy = cell / 21 == 1;
    let float = cell / 21 == 2;
    // A sink whose stream never carries a sample: "exactly the new data" is then
    // an empty file (overwrite) or the old content (append).
    let silent = cell / 21 == 3;
    ctx.count("mode_cells");
    ctx.nontrivial = true;
    ctx.hash.add(cell as u64 ^ 0xc17);
    let dir = tempfile::tempdir().map_err(|e| Violation::new("HARNESS-PANIC tempdir", e.to_string()))?;
    let (path, pre) = setup_initial(dir.path(), state);
    let desc = format!("{} mode {:?} on {}", if nocopy { "NoCopyFileSink" } else if float { "FileSink<Float>" } else if silent { "FileSink<u8> (no samples)" } else { "FileSink<u8>" }, ["Create", "Overwrite", "Append"][mode], INITIAL[state]);
    ctx.ev(|| desc.clone());
    if ctx.sample.is_none() {
        ctx.sample = Some(json!({"cell": desc}));
    }
    let solo = Solo::new();
    // Append on the 12-byte file: somebody else appends to the file after the
    // sink was opened and before it writes (a second sink on a shared log,
    // another process). What is in the file when the sink writes is existing
    // content and stays; the sink's data goes after it.
    let late_append = mode == 2 && state == 2;
    let late = |path: &std::path::Path| {
        if late_append {
            use std::io::Write;
            if let Ok(mut f) = std::fs::OpenOptions::new().append(true).open(path) {
                let _ = f.write_all(b"+LATE");
            }
        }
    };
    let new_data: Vec<u8> = vec![1, 2, 3, 4, 5, 6, 7, 8];
    let (ctor_ok, err): (bool, String) = solo.with(|| {
        if nocopy {
            let (w, r) = new_nocopy_stream::<String>();
            match catch(|| NoCopyFileSink::<String>::new(r, &path, mode_of(mode))) {
                Err(p) => (false, format!("PANIC {}", p.msg)),
                Ok(Err(e)) => (false, e.to_string()),
                Ok(Ok(mut b)) => {
                    late(&path);
                    w.push("abc".to_string(), &[]);
                    w.push("de".to_string(), &[]);
                    for _ in 0..4 {
                        if let Err(e) = b.work() {
                            return (false, format!("work failed: {e}"));
                        }
                    }
                    (true, String::new())
                }
            }
        } else if float {
            let (w, r) = new_stream::<f32>();
            match catch(|| FileSink::<f32>::new(r, &path, mode_of(mode))) {
                Err(p) => (false, format!("PANIC {}", p.msg)),
                Ok(Err(e)) => (false, e.to_string()),
                Ok(Ok(mut b)) => {
                    late(&path);
                    let mut wb = w.write_buf().unwrap();
                    wb.slice()[..2].copy_from_slice(&[1.0f32, -2.5]);
                    wb.produce(2, &[]);
                    for _ in 0..3 {
                        if let Err(e) = b.work() {
                            return (false, format!("work failed: {e}"));
                        }
                    }
                    (true, String::new())
                }
            }
        } else {
            let (w, r) = new_stream::<u8>();
            match catch(|| FileSink::<u8>::new(r, &path, mode_of(mode))) {
                Err(p) => (false, format!("PANIC {}", p.msg)),
                Ok(Err(e)) => (false, e.to_string()),
                Ok(Ok(mut b)) => {
                    late(&path);
                    if !silent {
                        let mut wb = w.write_buf().unwrap();
                        wb.slice()[..8].copy_from_slice(&new_data);
                        wb.produce(8, &[]);
                    }
                    for _ in 0..3 {
                        if let Err(e) = b.work() {
                            return (false, format!("work failed: {e}"));
                        }
                    }
                    (true, String::new())
                }
            }
        }
    });
    if err.starts_with("PANIC") {
        return Err(Violation::new("C17:constructor-panic", format!("{desc}: {err}")));
    }
    let written: Vec<u8> = if nocopy {
        b"abc\nde\n".to_vec()
    } else if float {
        [1.0f32.to_le_bytes(), (-2.5f32).to_le_bytes()].concat()
    } else if silent {
        Vec::new()
    } else {
        new_data.clone()
    };
    // A name that exists as a symbolic link to nothing: Create must refuse it
    // (the name exists) and create nothing through it; what the other modes do
    // with it is not specified here (no panic is all that is asked).
    if state == 6 {
        if mode == 0 {
            if ctor_ok {
                return Err(Violation::new("C17:mode-should-fail", format!("{desc}: opened without error (the link's target was {})", if dir.path().join("no-such-target").exists() { "created" } else { "not created" })));
            }
            if dir.path().join("no-such-target").exists() {
                return Err(Violation::new("C17:mode-clobbered", format!("{desc}: refused, but the link's target was created")));
            }
        }
        return Ok(());
    }
    // Truth table.
    let exists = matches!(state, 1 | 2 | 5);
    let must_fail = state == 3 || state == 4 || (mode == 0 && exists);
    if must_fail {
        if ctor_ok {
            return Err(Violation::new("C17:mode-should-fail", format!("{desc}: opened without error")));
        }
        if state == 2 || state == 5 {
            let now = std::fs::read(&path).unwrap_or_default();
            if now != pre {
                return Err(Violation::new("C17:mode-clobbered", format!("{desc}: refused, but the existing content changed")));
            }
        }
        return Ok(());
    }
    if !ctor_ok {
        return Err(Violation::new(format!("C17:mode-should-succeed:{}", ["create", "overwrite", "append"][mode]), format!("{desc}: failed with: {err}")));
    }
    let now = std::fs::read(&path).unwrap_or_default();
    let want: Vec<u8> = if late_append {
        [pre.clone(), b"+LATE".to_vec(), written].concat()
    } else if mode == 2 {
        [pre.clone(), written].concat()
    } else {
        written
    };
    if now != want {
        return Err(Violation::new(format!("C17:mode-content:{}", ["create", "overwrite", "append"][mode]), format!("{desc}: file holds {now:?}, expected {want:?}")));
    }
    Ok(())
}

/// Child side of a crash run: `vsim crash-child <dir> <choices,...>`.
pub fn crash_child(args: &[String]) -> i32 {
    let dir = std::path::PathBuf::from(&args[0]);
    let choices: Vec<u64> = args[1].split(',').filter(|s| !s.is_empty()).filter_map(|s| s.parse().ok()).collect();
    let mut src = Src::from_choices(choices);
    let p = CrashParams::draw(&mut src);
    let path = dir.join("out.bin");
    let ack_path = dir.join("ack");
    let solo = Solo::new();
    let data = p.data();
    // Fault indices are over all write() calls on the sink, across work() calls.
    let plan_for = |writes_done: usize| -> IoPlan {
        let mut plan = IoPlan { write_chunks: p.write_chunks.clone(), ..Default::default() };
        if let Some((n, t)) = p.crash {
            if n >= writes_done {
                plan.crash_at_write = Some((n - writes_done, t));
            }
        }
        if let Some(n) = p.eintr {
            if n >= writes_done {
                plan.eintr_at_write = Some(n - writes_done);
            }
        }
        if let Some((n, e)) = p.write_error {
            if n >= writes_done {
                plan.fail_at_write = Some((n - writes_done, e));
            }
        }
        plan
    };
    // Acknowledged = consumed when work() returned (written while disarmed).
    let works = std::cell::Cell::new(0usize);
    let ack = |n: usize| {
        let _ = std::fs::write(&ack_path, n.to_string());
        let k = works.get();
        works.set(k + 1);
        if p.kill_after_work == Some(k) {
            // SAFETY: plain kill of ourselves.
            unsafe {
                libc::kill(libc::getpid(), libc::SIGKILL);
                libc::_exit(137);
            }
        }
    };
    solo.with(|| {
        rustradio::verif::set_stream_size(p.stream);
        let mut writes_done = 0usize;
        let mut consumed = 0usize;
        if p.nocopy {
            let (w, r) = new_nocopy_stream::<String>();
            let mut b = NoCopyFileSink::<String>::new(r, &path, mode_of(p.mode)).expect("open");
            let mut fed = 0usize;
            let packets = p.packets();
            loop {
                if fed < packets.len() {
                    let k = src.range(1, 3.min(packets.len() - fed));
                    for q in &packets[fed..fed + k] {
                        w.push(q.clone(), &[]);
                    }
                    fed += k;
                }
                sys::arm(plan_for(writes_done), 1);
                let before = w.verif_len();
                let r = b.work();
                let after = w.verif_len();
                let st = sys::disarm();
                writes_done += st.writes + st.eintr;
                if r.is_err() {
                    std::process::exit(3);
                }
                consumed += before - after;
                ack(consumed);
                if fed == packets.len() && after == 0 {
                    break;
                }
            }
        } else {
            let (mut port, r) = StreamIn::new(data.clone(), vec![]);
            let mut b = FileSink::<u8>::new(r, &path, mode_of(p.mode)).expect("open");
            loop {
                let left = port.total() - port.fed();
                if left > 0 && port.space() > 0 {
                    let k = match src.below(3) {
                        0 => src.range(1, 9.min(left)),
                        1 => left.min(port.space()),
                        _ => src.range(1, left),
                    };
                    port.feed(k);
                }
                sys::arm(plan_for(writes_done), 1);
                let before = port.backlog();
                let r = b.work();
                let after = port.backlog();
                let st = sys::disarm();
                writes_done += st.writes + st.eintr + st.write_errors;
                if r.is_err() {
                    if st.write_errors > 0 {
                        // The injected ENOSPC/EIO came back as an error value:
                        // fine. What the failed call consumed is acknowledged
                        // all the same (the samples are gone from the stream).
                        consumed += before - after;
                        let _ = std::fs::write(&ack_path, consumed.to_string());
                        std::process::exit(4);
                    }
                    std::process::exit(3);
                }
                consumed += before - after;
                ack(consumed);
                if port.fed() == port.total() && after == 0 {
                    break;
                }
            }
        }
    });
    0
}

struct CrashParams {
    mode: usize,
    nocopy: bool,
    stream: usize,
    n: usize,
    seed: u64,
    crash: Option<(usize, usize)>,
    eintr: Option<usize>,
    write_chunks: Vec<usize>,
    pre: bool,
    /// Die right after the k-th work() call returned (and was acknowledged):
    /// a kill between two calls, when nothing is inside a system call.
    kill_after_work: Option<usize>,
    /// The n-th write() fails with ENOSPC / EIO (sample sink only: the packet
    /// sink can only look at a packet by popping it).
    write_error: Option<(usize, i32)>,
}

impl CrashParams {
    fn draw(src: &mut Src) -> Self {
        let mode = src.below(3);
        let nocopy = src.chance(1, 4);
        // Now and then a stream of the default size (4096000 bytes) holding
        // more than a megabyte when the sink is called.
        let big = src.chance(1, 30);
        let stream = if big { 0 } else { *src.pick(&[4096usize, 8192]) };
        let n = match src.below(5) {
            _ if big => (1 << 20) + 1 + src.below(3_500_000),
            0 => src.range(1, 20),
            1 => stream + 1,
            2 => 3 * stream + src.below(100),
            3 => 20_000 + src.below(5000), // beyond BufWriter's 8 KiB buffer several times
            _ => src.range(1, 2 * stream),
        };
        let seed = src.bits();
        let crash = if src.chance(3, 4) {
            let idx = match src.below(4) {
                0 => 0,
                1 => 1,
                _ => src.below(12),
            };
            let torn = match src.below(5) {
                0 => 0,
                1 => 1,
                2 => src.range(1, 64),
                3 => src.range(1, 9000),
                _ => usize::MAX, // the whole write goes through, death right after
            };
            Some((idx, torn))
        } else {
            None
        };
        let eintr = if crash.is_none() && src.chance(1, 2) { Some(src.below(4)) } else { None };
        let write_chunks = if big {
            // (not byte-at-a-time: that would be millions of system calls)
            if src.coin() { vec![src.range(60_000, 1 << 21)] } else { vec![] }
        } else if src.chance(1, 3) {
            gen_chunks(src, 1)
        } else {
            vec![]
        };
        let pre = mode != 0;
        let kill_after_work = if crash.is_none() && src.chance(2, 3) { Some(src.below(6)) } else { None };
        let write_error = if crash.is_none() && kill_after_work.is_none() && !nocopy && src.chance(1, 2) {
            Some((src.below(6), *src.pick(&[libc::ENOSPC, libc::EIO])))
        } else {
            None
        };
        Self { mode, nocopy, stream, n, seed, crash, eintr, write_chunks, pre, kill_after_work, write_error }
    }
    fn data(&self) -> Vec<u8> {
        let mut r = crate::src::Rng::new(self.seed);
        (0..self.n).map(|_| (r.next() >> 56) as u8).collect()
    }
    fn packets(&self) -> Vec<String> {
        let mut r = crate::src::Rng::new(self.seed);
        let np = (self.n % 40) + 1;
        // Some packets end in (or contain) a newline of their own: the sink
        // still appends its separator to every packet.
        (0..np).map(|i| { let l = (r.next() % 30) as usize; let tail = ["", "", "", "\n", "\n\n", "a\nb"][(r.next() % 6) as usize]; format!("{i}:{}{tail}", "x".repeat(l)) }).collect()
    }
    fn expected_stream(&self) -> Vec<u8> {
        if self.nocopy {
            let mut v = Vec::new();
            for p in self.packets() {
                v.extend(p.as_bytes());
                v.push(10);
            }
            v
        } else {
            self.data()
        }
    }
}

fn crash_run(src: &mut Src, ctx: &mut RunCtx) -> RunResult {
    let start = src.log.len();
    let p = CrashParams::draw(src);
    // A few more draws for the child's feed schedule.
    let extra: Vec<u64> = (0..64).map(|_| src.bits()).collect();
    let _ = extra;
    let child_choices: Vec<u64> = src.log[start..].to_vec();
    let dir = tempfile::tempdir().map_err(|e| Violation::new("HARNESS-PANIC tempdir", e.to_string()))?;
    let path = dir.path().join("out.bin");
    let pre: Vec<u8> = if p.pre { b"OLD-CONTENT-".to_vec() } else { vec![] };
    if p.pre {
        std::fs::write(&path, &pre).map_err(|e| Violation::new("HARNESS-PANIC write", e.to_string()))?;
    }
    let desc = format!("{} mode {} n {} crash {:?} kill_after_work {:?} eintr {:?} write_error {:?} write_chunks {:?}", if p.nocopy { "NoCopyFileSink" } else { "FileSink" }, ["Create", "Overwrite", "Append"][p.mode], p.n, p.crash, p.kill_after_work, p.eintr, p.write_error, p.write_chunks);
    ctx.ev(|| desc.clone());
    if p.stream == 0 && !p.nocopy {
        ctx.count("default_size_stream_over_1MiB_of_input");
    }
    if ctx.sample.is_none() {
        ctx.sample = Some(json!({"crash_run": desc}));
    }
    let exe = std::env::current_exe().map_err(|e| Violation::new("HARNESS-PANIC exe", e.to_string()))?;
    let out = std::process::Command::new(exe)
        .arg("crash-child")
        .arg(dir.path())
        .arg(child_choices.iter().map(|c| c.to_string()).collect::<Vec<_>>().join(","))
        .output()
        .map_err(|e| Violation::new("HARNESS-PANIC spawn", e.to_string()))?;
    use std::os::unix::process::ExitStatusExt;
    let write_failed = out.status.code() == Some(4);
    if write_failed {
        ctx.count("fault:write_error");
        ctx.nontrivial = true;
    }
    // An injected write error ends the run like a kill does: the file must be
    // a prefix holding at least everything consumed, the failed call included.
    let killed = out.status.signal() == Some(libc::SIGKILL) || write_failed;
    let code = out.status.code();
    if !killed && code != Some(0) {
        let err = String::from_utf8_lossy(&out.stderr);
        if code == Some(3) {
            return Err(Violation::new("C17:work-failed", format!("{desc}: work() returned an error in the child (an injected EINTR or short write must be absorbed): {}", err.lines().last().unwrap_or(""))));
        }
        return Err(Violation::new("C17:child-died", format!("{desc}: child ended with {:?}: {}", out.status, err.lines().last().unwrap_or(""))));
    }
    let file = std::fs::read(&path).unwrap_or_default();
    let ack: usize = std::fs::read_to_string(dir.path().join("ack")).ok().and_then(|s| s.trim().parse().ok()).unwrap_or(0);
    let stream = p.expected_stream();
    let base: Vec<u8> = if p.mode == 2 { pre.clone() } else { vec![] };
    let full: Vec<u8> = [base.clone(), stream.clone()].concat();
    if killed && p.kill_after_work.is_some() && p.crash.is_none() {
        ctx.count("fault:kill_between_calls");
    }
    if killed && p.crash.is_some() {
        ctx.count("fault:crash_at_write");
        if let Some((_, t)) = p.crash {
            if t != 0 && t != usize::MAX {
                ctx.count("fault:torn_write");
            }
        }
    }
    if !p.write_chunks.is_empty() {
        ctx.count("fault:short_write");
    }
    if p.eintr.is_some() && !killed {
        ctx.count("fault:eintr_write");
    }
    if file.len() > full.len() || file[..] != full[..file.len()] {
        let d = crate::rigcheck::first_diff(&full, &file).unwrap_or(0);
        return Err(Violation::new("C17:not-a-prefix", format!("{desc}: file ({} bytes) is not a prefix of the expected content ({} bytes), first difference at {d}", file.len(), full.len())));
    }
    // Acknowledged samples/packets must be on disk.
    let ack_bytes = if p.nocopy {
        let mut n = 0;
        for q in p.packets().iter().take(ack) {
            n += q.len() + 1;
        }
        n
    } else {
        ack
    };
    if file.len() < base.len() + ack_bytes {
        return Err(Violation::new(
            "C17:acknowledged-data-missing",
            format!("{desc}: {} items were consumed by completed work() calls ({ack_bytes} bytes), but the file holds only {} bytes of new data after the kill / failed write", ack, file.len().saturating_sub(base.len())),
        ));
    }
    if killed && ack > 0 {
        ctx.count("crash_after_ack");
        ctx.nontrivial = true;
    }
    if !killed && file != full {
        return Err(Violation::new("C17:incomplete-without-crash", format!("{desc}: child finished normally but the file holds {} of {} bytes", file.len(), full.len())));
    }
    Ok(())
}

// ===========================================================================
// C18

pub struct MappingCheck;

fn count_fds() -> usize {
    std::fs::read_dir("/proc/self/fd").map(|d| d.count()).unwrap_or(0)
}

fn count_stream_maps() -> usize {
    // Stream buffers are mappings of unlinked temp files.
    std::fs::read_to_string("/proc/self/maps").map(|s| s.lines().filter(|l| l.contains("(deleted)")).count()).unwrap_or(0)
}

struct Canary {
    addr: *mut u8,
    len: usize,
}
impl Canary {
    fn new(pages: usize) -> Self {
        let len = pages * 4096;
        // SAFETY: anonymous private mapping owned by this struct.
        let addr = unsafe { libc::mmap(std::ptr::null_mut(), len, libc::PROT_READ | libc::PROT_WRITE, libc::MAP_PRIVATE | libc::MAP_ANONYMOUS, -1, 0) } as *mut u8;
        assert!(!addr.is_null() && addr as isize != -1);
        // SAFETY: freshly mapped, len bytes.
        unsafe { std::ptr::write_bytes(addr, 0xA5, len) };
        Self { addr, len }
    }
    fn intact(&self) -> bool {
        // SAFETY: reading our own mapping; if something was mapped over it the
        // read still succeeds but the pattern is gone.
        let s = unsafe { std::slice::from_raw_parts(self.addr, self.len) };
        s.iter().all(|&b| b == 0xA5)
    }
}
impl Drop for Canary {
    fn drop(&mut self) {
        // SAFETY: our mapping.
        unsafe { libc::munmap(self.addr as *mut libc::c_void, self.len) };
    }
}

impl Check for MappingCheck {
    fn id(&self) -> &'static str {
        "C18"
    }
    fn level(&self) -> &'static str {
        "fault_enumeration"
    }
    fn rule(&self) -> String {
        "one run (single worker process so that /proc counts are exact) = a seeded create/drop history of 1..20 streams (sizes 1..8 pages and non page multiples, element sizes dividing and not dividing, some created and dropped on other threads) with canary pages mapped around it, and optionally one fault: the 1st or 2nd mmap of a creation fails with ENOMEM, ftruncate fails with ENOSPC, or the descriptor limit is reached. \
         Checked: every stream that was created aliases (a window spanning the wrap point, written through one half and read through the other, for seeded offsets incl. every offset of a one-page buffer in the enumerated case); failed creations return Err without unwinding; no range that was a stream mapping is unmapped a second time after its release, and every fixed-address mapping lands inside a mapping the caller holds at that instant; afterwards the thread's mmap/munmap ledger is empty, the number of deleted-file mappings and of open descriptors is back to the baseline, the canary pages are intact, and a fresh stream still works. \
         non-trivial = at least one stream was created and dropped, or a fault fired; distinct = hash of the decision list".into()
    }
    fn assumptions(&self) -> Vec<String> {
        vec![
            "tempfile creation goes through raw syscalls (rustix) and cannot be failed at the libc seam; descriptor exhaustion is injected with RLIMIT_NOFILE instead".into(),
            "address-space exhaustion is modelled as ENOMEM from mmap at a chosen call index".into(),
        ]
    }
    fn real_vs_stub(&self) -> Value {
        json!({"real": ["Circ::new / Map / Drop, tempfile, kernel mmap"], "simulated": ["mmap ENOMEM at call k, ftruncate ENOSPC, descriptor limit"], "stub": []})
    }
    fn budget(&self, tier: Tier) -> Budget {
        match tier {
            Tier::Quick => Budget { runs: 12000, max_secs: 40.0 },
            Tier::Thorough => Budget { runs: 500_000, max_secs: 900.0 },
        }
    }
    fn workers(&self) -> Option<usize> {
        Some(1)
    }
    fn fixed_cases(&self) -> u64 {
        1
    }
    fn required(&self, _tier: Tier) -> Vec<&'static str> {
        vec!["fault:mmap_enomem_first", "fault:mmap_enomem_second", "fault:ftruncate_enospc", "fault:fd_limit", "created_on_other_thread", "bad_size_rejected", "nondividing_rejected", "alias_checked"]
    }
    fn run(&self, src: &mut Src, ctx: &mut RunCtx) -> RunResult {
        let sel = src.draw(2);
        let r = if sel == 0 { alias_every_offset(ctx) } else { mapping_history(src, ctx) };
        sys::disarm();
        for v in &src.log {
            ctx.hash.add(*v);
        }
        match r {
            Ok(()) => Ok(()),
            Err(v) => ctx.tolerate(v),
        }
    }
}

fn alias_check(b: &Arc<Buffer<u8>>, off: usize) -> Result<(), String> {
    // Byte i and byte i+size must be the same memory, in both directions:
    // what is written through one half must be read back through the other.
    let cap = b.total_size();
    let off = off % cap;
    let pat = |i: usize| ((i * 31 + off * 7 + 3) % 251) as u8;
    // (1) Write a full window starting at `off`: ring positions 0..off are
    // written through the SECOND half (addresses cap..cap+off).
    b.verif_preroll(off);
    let mut w = b.clone().write_buf().map_err(|e| e.to_string())?;
    if w.len() != cap {
        return Err(format!("empty buffer offers {} of {cap}", w.len()));
    }
    for (i, p) in w.slice().iter_mut().enumerate() {
        *p = pat(i);
    }
    w.produce(cap, &[]);
    let (r, _) = b.clone().read_buf().map_err(|e| e.to_string())?;
    if let Some(i) = (0..cap).find(|&i| r.slice()[i] != pat(i)) {
        return Err(format!("offset {off}: byte {i} of a window spanning the wrap reads {}, wrote {}", r.slice()[i], pat(i)));
    }
    // Consume up to the wrap: the remaining `off` samples are now read through
    // the FIRST half (addresses 0..off).
    r.consume(cap - off);
    let (r, _) = b.clone().read_buf().map_err(|e| e.to_string())?;
    if r.len() != off {
        return Err(format!("offset {off}: {} samples readable after consuming to the wrap, expected {off}", r.len()));
    }
    if let Some(i) = (0..off).find(|&i| r.slice()[i] != pat(cap - off + i)) {
        return Err(format!(
            "offset {off}: ring byte {i} was written through the second half of the mapping as {} but reads {} through the first half: the halves do not alias",
            pat(cap - off + i),
            r.slice()[i]
        ));
    }
    r.consume(off);
    // (2) The other direction: write ring positions 0..off through the FIRST
    // half, read them through the SECOND half of a window starting at `off`.
    b.verif_preroll(0);
    let mut w = b.clone().write_buf().map_err(|e| e.to_string())?;
    for (i, p) in w.slice().iter_mut().enumerate() {
        *p = pat(i + 1000);
    }
    w.produce(cap, &[]);
    let (r, _) = b.clone().read_buf().map_err(|e| e.to_string())?;
    r.consume(off);
    let mut w = b.clone().write_buf().map_err(|e| e.to_string())?;
    if w.len() != off {
        return Err(format!("offset {off}: write window after consuming {off} has {} slots", w.len()));
    }
    for (i, p) in w.slice().iter_mut().enumerate() {
        *p = pat(i + 5000);
    }
    w.produce(off, &[]);
    let (r, _) = b.clone().read_buf().map_err(|e| e.to_string())?;
    if r.len() != cap {
        return Err(format!("offset {off}: full buffer shows {} samples", r.len()));
    }
    for i in 0..cap {
        let want = if i < cap - off { pat(off + i + 1000) } else { pat(i - (cap - off) + 5000) };
        if r.slice()[i] != want {
            return Err(format!(
                "offset {off}: window byte {i} (ring byte {}) reads {} but {} was written{}: the halves do not alias",
                (off + i) % cap,
                r.slice()[i],
                want,
                if i >= cap - off { " through the first half and is read through the second" } else { "" }
            ));
        }
    }
    r.consume(cap);
    b.verif_preroll(0);
    Ok(())
}

fn alias_every_offset(ctx: &mut RunCtx) -> RunResult {
    ctx.nontrivial = true;
    ctx.hash.add(0xa11a5);
    let b = Arc::new(Buffer::<u8>::new(4096).map_err(|e| Violation::new("C18:create-failed", e.to_string()))?);
    for off in 0..4096 {
        if let Err(e) = alias_check(&b, off) {
            return Err(Violation::new("C18:alias", e));
        }
    }
    ctx.add("alias_checked", 4096);
    if ctx.sample.is_none() {
        ctx.sample = Some(json!({"enumerated": "aliasing at every offset of a one-page buffer"}));
    }
    Ok(())
}

/// Drop the two ends of a stream: 0 here, 1 each on its own thread, 2 one here
/// and one on a thread, 3 while a panic unwinds through the frame owning them.
fn drop_pair<W: Send + 'static, R: Send + 'static>(w: W, r: R, how: usize, writer_first: bool) {
    match how {
        0 => {
            if writer_first {
                drop(w);
                drop(r);
            } else {
                drop(r);
                drop(w);
            }
        }
        1 => {
            let a = std::thread::spawn(move || drop(w));
            let b = std::thread::spawn(move || drop(r));
            let _ = a.join();
            let _ = b.join();
        }
        2 => {
            if writer_first {
                drop(w);
                let _ = std::thread::spawn(move || drop(r)).join();
            } else {
                drop(r);
                let _ = std::thread::spawn(move || drop(w)).join();
            }
        }
        _ => {
            // Declared in this order: locals drop in reverse during unwinding.
            if writer_first {
                let _r = r;
                let _w = w;
                panic!("verif: unwinding through stream ends");
            } else {
                let _w = w;
                let _r = r;
                panic!("verif: unwinding through stream ends");
            }
        }
    }
}

fn mapping_history(src: &mut Src, ctx: &mut RunCtx) -> RunResult {
    let canary_a = Canary::new(2);
    let base_fds = count_fds();
    let base_maps = count_stream_maps();
    let nops = src.range(1, 20);
    let fault = src.below(8); // 0..3 none, 4 mmap#1, 5 mmap#2, 6 ftruncate, 7 fd limit
    let fault_at_creation = src.below(nops);
    let mut live: Vec<Arc<Buffer<u8>>> = Vec::new();
    let mut live32: Vec<Arc<Buffer<u32>>> = Vec::new();
    let canary_b = Canary::new(2);
    let mut creations = 0usize;
    let mut desc: Vec<String> = Vec::new();
    sys::arm(IoPlan::default(), 1);
    sys::ledger_start();
    let result: RunResult = (|| {
        for op in 0..nops {
            let act = src.below(6);
            if act == 5 {
                // A stream pair through the public constructors, its two ends
                // dropped in a seeded order and manner: plainly, on another
                // thread, or while a panic unwinds through their owner.
                let nocopy = src.chance(1, 4);
                let pages = *src.pick(&[1usize, 2, 8]);
                let how = src.below(4);
                let writer_first = src.coin();
                desc.push(format!("pair pages {pages} nocopy {nocopy} how {how} writer_first {writer_first}"));
                ctx.count("stream_pair_created_and_dropped");
                if how == 3 {
                    ctx.count("ends_dropped_during_unwind");
                }
                let r = catch(|| {
                    if nocopy {
                        let (w, r) = new_nocopy_stream::<Vec<u8>>();
                        w.push(vec![1, 2, 3], &[]);
                        drop_pair(w, r, how, writer_first);
                    } else {
                        rustradio::verif::set_stream_size(pages * 4096);
                        let made = catch(new_stream::<u32>);
                        rustradio::verif::set_stream_size(0);
                        if let Ok((w, r)) = made {
                            drop_pair(w, r, how, writer_first);
                        }
                    }
                });
                rustradio::verif::set_stream_size(0);
                if let Err(p) = r {
                    if p.msg != "verif: unwinding through stream ends" {
                        return Err(Violation::new("C18:create-panicked", format!("op {op}: stream pair: {} at {}", p.msg, p.loc)));
                    }
                }
                continue;
            }
            if act <= 2 || live.is_empty() {
                // create
                let size = match src.below(8) {
                    0 => 1000,
                    1 => 4097,
                    2 => 0,
                    3 => 8 * 4096,
                    4 => 2 * 4096,
                    _ => 4096,
                };
                let ty = src.below(5); // 0,1: u8; 2: u32; 3: [u8;3]; 4: ()
                let this_fault = if creations == fault_at_creation { fault } else { 0 };
                creations += 1;
                let other_thread = src.chance(1, 4) && this_fault < 4;
                let ty = if other_thread { 0 } else { ty };
                desc.push(format!("create {size} ty{ty} fault{this_fault}{}", if other_thread { " on-thread" } else { "" }));
                // Arm the fault for this creation only.
                let before = sys::stats();
                let mut plan = IoPlan::default();
                let mut old_limit = None;
                match this_fault {
                    4 => {
                        plan.mmap_fail_at = Some(before.mmaps);
                        ctx.count("fault:mmap_enomem_first");
                    }
                    5 => {
                        plan.mmap_fail_at = Some(before.mmaps + 1);
                        ctx.count("fault:mmap_enomem_second");
                    }
                    6 => {
                        plan.ftruncate_fail_at = Some(before.ftruncates + if src.coin() { 0 } else { 1 });
                        ctx.count("fault:ftruncate_enospc");
                    }
                    7 => {
                        let mut rl = libc::rlimit { rlim_cur: 0, rlim_max: 0 };
                        // SAFETY: plain getrlimit/setrlimit.
                        unsafe {
                            libc::getrlimit(libc::RLIMIT_NOFILE, &mut rl);
                        }
                        old_limit = Some(rl);
                        let lim = libc::rlimit { rlim_cur: 3, rlim_max: rl.rlim_max };
                        // SAFETY: lowering our own soft limit.
                        unsafe {
                            libc::setrlimit(libc::RLIMIT_NOFILE, &lim);
                        }
                        ctx.count("fault:fd_limit");
                    }
                    _ => {}
                }
                // Keep the running counters, swap in the plan.
                sys::set_plan(plan);
                let made = if other_thread {
                    ctx.count("created_on_other_thread");
                    // Create (and for half of them also drop) on another thread.
                    let drop_there = src.coin();
                    let h = std::thread::spawn(move || {
                        let r = catch(|| Buffer::<u8>::new(size));
                        match r {
                            Ok(Ok(b)) => {
                                if drop_there {
                                    drop(b);
                                    Ok(None)
                                } else {
                                    Ok(Some(b))
                                }
                            }
                            Ok(Err(e)) => Err(e.to_string()),
                            Err(p) => Err(format!("PANIC {} at {}", p.msg, p.loc)),
                        }
                    });
                    match h.join().unwrap_or(Err("thread died".into())) {
                        Ok(Some(b)) => Ok(Some(Arc::new(b))),
                        Ok(None) => Ok(None),
                        Err(e) => Err(e),
                    }
                } else {
                    match ty {
                        2 => match catch(|| Buffer::<u32>::new(size)) {
                            Ok(Ok(b)) => {
                                live32.push(Arc::new(b));
                                Ok(None)
                            }
                            Ok(Err(e)) => Err(e.to_string()),
                            Err(p) => Err(format!("PANIC {} at {}", p.msg, p.loc)),
                        },
                        4 => match catch(|| Buffer::<()>::new(size)) {
                            // An element type of size 0 divides nothing: an
                            // error value, like any other unusable set-up.
                            Ok(Ok(_b)) => Err("ACCEPTED-NONDIVIDING".into()),
                            Ok(Err(e)) => Err(e.to_string()),
                            Err(p) => Err(format!("PANIC {} at {}", p.msg, p.loc)),
                        },
                        3 => match catch(|| Buffer::<[u8; 3]>::new(size)) {
                            Ok(Ok(_b)) => Err("ACCEPTED-NONDIVIDING".into()),
                            Ok(Err(e)) => Err(e.to_string()),
                            Err(p) => Err(format!("PANIC {} at {}", p.msg, p.loc)),
                        },
                        _ => match catch(|| Buffer::<u8>::new(size)) {
                            Ok(Ok(b)) => Ok(Some(Arc::new(b))),
                            Ok(Err(e)) => Err(e.to_string()),
                            Err(p) => Err(format!("PANIC {} at {}", p.msg, p.loc)),
                        },
                    }
                };
                if let Some(rl) = old_limit {
                    // SAFETY: restoring our own limit.
                    unsafe {
                        libc::setrlimit(libc::RLIMIT_NOFILE, &rl);
                    }
                }
                sys::set_plan(IoPlan::default());
                let valid = size != 0 && size % 4096 == 0 && ty != 3 && ty != 4;
                match made {
                    Ok(Some(b)) => {
                        if !valid || this_fault >= 4 {
                            return Err(Violation::new("C18:invalid-accepted", format!("op {op}: Buffer::new({size}) succeeded although size is invalid or a fault was injected (fault {this_fault})")));
                        }
                        let off = match src.below(3) {
                            0 => b.total_size() - 1,
                            1 => src.below(b.total_size()),
                            _ => b.total_size() / 2,
                        };
                        if let Err(e) = alias_check(&b, off) {
                            return Err(Violation::new("C18:alias", format!("op {op}: {e}")));
                        }
                        ctx.count("alias_checked");
                        live.push(b);
                    }
                    Ok(None) => {}
                    Err(e) => {
                        if e.starts_with("PANIC") {
                            return Err(Violation::new("C18:create-panicked", format!("op {op}: Buffer::new({size}) with fault {this_fault}: {e}")));
                        }
                        if e == "ACCEPTED-NONDIVIDING" {
                            if size != 0 && size % 4096 == 0 {
                                return Err(Violation::new("C18:nondividing-accepted", format!("op {op}: Buffer::new({size}) for an element type whose size does not divide it ([u8;3] or a zero-sized type) succeeded")));
                            }
                        } else if valid && this_fault < 4 {
                            return Err(Violation::new("C18:valid-refused", format!("op {op}: Buffer::new({size}) failed without a fault: {e}")));
                        }
                        if !valid {
                            ctx.count(if ty == 3 && size % 4096 == 0 && size != 0 { "nondividing_rejected" } else { "bad_size_rejected" });
                        }
                    }
                }
            } else {
                // drop one
                let i = src.below(live.len());
                desc.push(format!("drop #{i}"));
                let b = live.swap_remove(i);
                if src.chance(1, 4) {
                    let _ = std::thread::spawn(move || drop(b)).join();
                } else {
                    drop(b);
                }
            }
            if !canary_a.intact() || !canary_b.intact() {
                return Err(Violation::new("C18:foreign-memory-overwritten", format!("op {op}: a canary mapping next to the streams lost its contents ({desc:?})")));
            }
        }
        Ok(())
    })();
    ctx.ev(|| format!("C18 history {desc:?}"));
    if ctx.sample.is_none() {
        ctx.sample = Some(json!({"history": desc}));
    }
    live.clear();
    live32.clear();
    let _st = sys::disarm();
    let ledger = sys::ledger_stop();
    let unowned = sys::fixed_over_unowned();
    if !unowned.is_empty() {
        return Err(Violation::new("C18:fixed-mapping-over-unowned-range", format!("{} fixed-address mappings were placed over address ranges that were not (or no longer) the caller's own mapping at that instant — any other thread's mmap may have taken them, and MAP_FIXED replaces it silently: {:?} ({desc:?})", unowned.len(), unowned.iter().take(4).map(|(a, l)| format!("{a:#x}+{l}")).collect::<Vec<_>>())));
    }
    let twice = sys::double_unmaps();
    if !twice.is_empty() {
        return Err(Violation::new("C18:unmapped-twice", format!("{} ranges that had been stream mappings were unmapped a second time after their release (by then the addresses may belong to someone else): {:?} ({desc:?})", twice.len(), twice.iter().take(4).map(|(a, l)| format!("{a:#x}+{l}")).collect::<Vec<_>>())));
    }
    result?;
    ctx.nontrivial = true;
    if !ledger.is_empty() {
        return Err(Violation::new("C18:mapping-leak", format!("after dropping every stream {} shared-mapping ranges remain in the mmap/munmap ledger: {:?} ({desc:?})", ledger.len(), ledger.iter().take(4).collect::<Vec<_>>())));
    }
    let maps = count_stream_maps();
    if maps != base_maps {
        return Err(Violation::new("C18:mapping-leak", format!("{maps} deleted-file mappings in /proc/self/maps after the history, {base_maps} before ({desc:?})")));
    }
    let fds = count_fds();
    if fds != base_fds {
        return Err(Violation::new("C18:fd-leak", format!("{fds} open descriptors after the history, {base_fds} before ({desc:?})")));
    }
    // A later stream still works.
    match catch(|| Buffer::<u8>::new(4096)) {
        Ok(Ok(b)) => {
            let b = Arc::new(b);
            if let Err(e) = alias_check(&b, 4000) {
                return Err(Violation::new("C18:alias", format!("after the history: {e}")));
            }
        }
        Ok(Err(e)) => return Err(Violation::new("C18:later-stream-fails", format!("a fresh stream cannot be created after the history: {e}"))),
        Err(p) => return Err(Violation::new("C18:later-stream-fails", format!("creating a fresh stream panicked: {}", p.msg))),
    }
    Ok(())
}
