mod blocks;
mod bufsim;
mod c13;
mod c15;
mod c16;
mod c19;
mod engine;
mod graphs;
mod graphsim;
mod hblocks;
mod mt;
mod datagen;
mod e2e;
mod hdlc;
mod iosim;
mod rig;
mod rigcheck;
mod rt;
mod src;
mod sys;

use engine::{Check, DEFAULT_SEED, Tier};

fn checks() -> Vec<Box<dyn Check>> {
    vec![
        Box::new(bufsim::BufCheck { prop: "C01" }),
        Box::new(bufsim::BufCheck { prop: "C02" }),
        Box::new(mt::SpscCheck),
        Box::new(mt::EosCheck),
        Box::new(mt::MtGraphCheck),
        Box::new(graphsim::GraphCheck),
        Box::new(graphsim::CancelCheck),
        Box::new(rigcheck::RigCheck { prop: "C08" }),
        Box::new(rigcheck::RigCheck { prop: "C09" }),
        Box::new(rigcheck::RigCheck { prop: "C10" }),
        Box::new(rigcheck::RigCheck { prop: "C11" }),
        Box::new(rigcheck::RigCheck { prop: "C12" }),
        Box::new(c13::HdlcCheck),
        Box::new(iosim::FormatCheck),
        Box::new(c15::HostileCheck),
        Box::new(c16::SourceCheck),
        Box::new(iosim::FileSinkCheck),
        Box::new(iosim::MappingCheck),
        Box::new(c19::DeriveCheck),
        Box::new(e2e::E2eCheck),
    ]
}

fn usage() -> ! {
    eprintln!("usage: vsim check <Cnn> [--tier quick|thorough] [--seed N] [--runs N]\n       vsim replay <file> [--quiet]\n       vsim list");
    std::process::exit(2);
}

fn main() {
    engine::install_panic_hook();
    let args: Vec<String> = std::env::args().collect();
    if args.len() < 2 {
        usage();
    }
    let checks = checks();
    match args[1].as_str() {
        "list" => {
            for c in &checks {
                println!("{}", c.id());
            }
        }
        "check" => {
            if args.len() < 3 {
                usage();
            }
            let id = args[2].as_str();
            let mut tier = match std::env::var("VERIF_TIER").as_deref() {
                Ok("thorough") => Tier::Thorough,
                _ => Tier::Quick,
            };
            let mut seed: u64 = std::env::var("VERIF_SEED")
                .ok()
                .and_then(|s| s.parse().ok())
                .unwrap_or(DEFAULT_SEED);
            let mut runs = None;
            let mut i = 3;
            while i < args.len() {
                match args[i].as_str() {
                    "--tier" => {
                        tier = if args.get(i + 1).map(|s| s.as_str()) == Some("thorough") {
                            Tier::Thorough
                        } else {
                            Tier::Quick
                        };
                        i += 1;
                    }
                    "--seed" => {
                        seed = args.get(i + 1).and_then(|s| s.parse().ok()).unwrap_or_else(|| usage());
                        i += 1;
                    }
                    "--runs" => {
                        runs = Some(args.get(i + 1).and_then(|s| s.parse().ok()).unwrap_or_else(|| usage()));
                        i += 1;
                    }
                    _ => usage(),
                }
                i += 1;
            }
            let Some(c) = checks.iter().find(|c| c.id() == id) else {
                eprintln!("harness error: no check for {id}");
                std::process::exit(2);
            };
            std::process::exit(engine::run_check(c.as_ref(), tier, seed, runs));
        }
        "digest" => {
            // vsim digest <runs> [workers] [only-id]
            let n: u64 = args.get(2).and_then(|s| s.parse().ok()).unwrap_or(64);
            let w: usize = args.get(3).and_then(|s| s.parse().ok()).unwrap_or(16);
            let seed: u64 = std::env::var("VERIF_SEED").ok().and_then(|s| s.parse().ok()).unwrap_or(DEFAULT_SEED);
            for c in &checks {
                if let Some(only) = args.get(4) {
                    if c.id() != only {
                        continue;
                    }
                }
                let nn = n + c.fixed_cases().min(64);
                let (d, per) = engine::digest(c.as_ref(), seed, nn, w);
                println!("{} runs={} digest={:016x} first={:016x} last={:016x}", c.id(), nn, d, per.first().copied().unwrap_or(0), per.last().copied().unwrap_or(0));
            }
        }
        "crash-child" => {
            std::process::exit(iosim::crash_child(&args[2..]));
        }
        "replay" => {
            if args.len() < 3 {
                usage();
            }
            let quiet = args.iter().any(|a| a == "--quiet");
            std::process::exit(engine::replay_file(&checks, &args[2], quiet));
        }
        _ => usage(),
    }
}
