//! mtsim scenarios under the baton scheduler: C03 (SPSC), C04 (end-of-stream
//! decisions), C05 (MTGraph result), C07 (cancellation / block failure).

use std::sync::atomic::{AtomicBool, AtomicU64, Ordering};
use std::sync::{Arc, Mutex};

use rustradio::block::Block;
use rustradio::graph::GraphRunner;
use rustradio::mtgraph::MTGraph;
use rustradio::stream::{StreamWait, new_nocopy_stream, new_stream};
use serde_json::{Value, json};

use crate::engine::{Budget, Check, RunCtx, RunResult, Tier, Violation, catch};
use crate::graphs::*;
use crate::hblocks::*;
use crate::rt::{Abort, Sched, SchedCfg, Solo, abort_violation};
use crate::src::Src;

/// Spawn a managed thread from inside a simulation.
fn spawn<T: Send + 'static>(name: &str, f: impl FnOnce() -> T + Send + 'static) -> rustradio::verif::JoinHandle<T> {
    rustradio::verif::Builder::new().name(name.to_string()).spawn(f).expect("spawn managed thread")
}

fn finish_sched(sched: &Arc<Sched>, src: &mut Src, ctx: &mut RunCtx) {
    *src = sched.take_src();
    let g = sched.lock();
    ctx.steps += g.steps;
    ctx.sim_ns += g.clock_ns;
    ctx.hash.add(g.hash.0);
    for (k, v) in &g.counters {
        ctx.add(k, *v);
    }
    if let Some(tr) = &g.trace {
        for l in tr.iter().take(4000) {
            ctx.trace.push(l.clone());
        }
    }
    ctx.add("windows_opened", g.windows.opened);
    ctx.add("read_and_write_window_live_together", g.windows.concurrent_rw);
}

fn take_src(src: &mut Src) -> Src {
    std::mem::replace(src, Src::from_seed(0))
}

// ===========================================================================
// C03

pub struct SpscCheck;

impl Check for SpscCheck {
    fn id(&self) -> &'static str {
        "C03"
    }
    fn rule(&self) -> String {
        "one run = a producer thread and a consumer thread over one real stream (u32 counter payload, 1-2 pages, seeded start offset, seeded commit/consume sizes, optional waits, free()/eof() queries), every interleaving decision at lock / unlock / condvar wait / notify / time-out points drawn from the seed under a seeded strategy (random walk, run-to-block with preemptions, PCT-like priorities; time-out bias 0/5/30/100%). \
         Checked: each read window equals the next slice of 0,1,2,..; window length bracketed by what the producer had committed before/after the acquisition; no live read window overlaps a live write window; after the producer has exited everything committed is read. \
         non-trivial = at least one context switch while both threads were alive; distinct = hash of the scheduling trace".into()
    }
    fn assumptions(&self) -> Vec<String> {
        vec![
            "sequentially consistent interleavings only; weak-memory reorderings of Arc's counter are out of reach".into(),
            "a 100 ms time-out may fire at any scheduling point (over-approximation of real schedulers)".into(),
        ]
    }
    fn real_vs_stub(&self) -> Value {
        json!({"real": ["Buffer/Circ, ReadStream/WriteStream (mmap ring, state machine, unsafe slices)"], "simulated": ["Mutex, Condvar (incl. time-outs), thread scheduling, clock"], "stub": []})
    }
    fn budget(&self, tier: Tier) -> Budget {
        match tier {
            Tier::Quick => Budget { runs: 40000, max_secs: 45.0 },
            Tier::Thorough => Budget { runs: 2_000_000, max_secs: 900.0 },
        }
    }
    fn required(&self, _tier: Tier) -> Vec<&'static str> {
        vec!["fault:preempt", "fault:timeout_fired", "read_and_write_window_live_together", "producer_saw_full", "consumer_saw_empty", "wrapped"]
    }
    fn run(&self, src: &mut Src, ctx: &mut RunCtx) -> RunResult {
        let deep = crate::engine::deep();
        let pages = if deep { *src.pick(&[1usize, 1, 2, 3, 5, 8]) } else { *src.pick(&[1usize, 1, 2, 3]) };
        let total: u64 = match src.below(if deep { 5 } else { 4 }) {
            0 => src.range(1, 50) as u64,
            1 => src.range(50, 400) as u64,
            2 => (pages * 1024 + src.below(40)) as u64,
            3 => (pages * 1024 * 2 + src.below(500)) as u64,
            _ => (pages * 1024 * 4 + src.below(3000)) as u64,
        };
        // Step budget in proportion to the work (60k steps cover 6644 samples).
        let budget_steps = 60_000 * (1 + total / 6000);
        let off = match src.below(4) {
            0 => 0,
            1 => pages * 1024 - 1,
            2 => pages * 1024 - src.range(1, 40),
            _ => src.below(pages * 1024),
        };
        let small_chunks = src.chance(1, 2);
        let cfg = SchedCfg::draw(src, budget_steps, false);
        let fair = cfg.fair();
        let verbose = ctx.verbose;
        ctx.ev(|| format!("C03 total={total} pages={pages} offset={off} small_chunks={small_chunks} cfg={cfg:?}"));
        if ctx.sample.is_none() {
            ctx.sample = Some(json!({"samples": total, "pages": pages, "start_offset": off, "strategy": format!("{:?}", cfg.strategy), "timeout_bias": cfg.timeout_bias}));
        }
        let sched = Sched::new(take_src(src), cfg, verbose);
        let errors: Arc<Mutex<Vec<(String, String)>>> = Arc::new(Mutex::new(Vec::new()));
        let probes: Arc<Mutex<Vec<&'static str>>> = Arc::new(Mutex::new(Vec::new()));
        let s2 = sched.clone();
        let e2 = errors.clone();
        let p2 = probes.clone();
        let res = sched.run_root(move || {
            rustradio::verif::set_stream_size(pages * 4096);
            let (w, r) = new_stream::<u32>();
            rustradio::verif::set_stream_size(0);
            let cap = r.total_size() as u64;
            if off != 0 {
                w.verif_preroll(off);
                p2.lock().unwrap().push("wrapped");
            }
            // Harness-side facts, updated without scheduling points in between
            // the stream call and the update.
            let begun = Arc::new(AtomicU64::new(0)); // commits started (upper bound on visible)
            let done = Arc::new(AtomicU64::new(0)); // commits finished (lower bound)
            let consumed_lo = Arc::new(AtomicU64::new(0)); // consumes finished
            let consumed_hi = Arc::new(AtomicU64::new(0)); // consumes started
            let prod_exited = Arc::new(AtomicBool::new(false));
            let (b3, d3, cl3, ch3, pe3) = (begun.clone(), done.clone(), consumed_lo.clone(), consumed_hi.clone(), prod_exited.clone());
            let s3 = s2.clone();
            let e3 = e2.clone();
            let p3 = p2.clone();
            let producer = spawn("producer", move || {
                let mut next: u64 = 0;
                while next < total {
                    let style = s3.with_src(|s| s.below(8));
                    if style == 0 {
                        let cl = cl3.load(Ordering::SeqCst);
                        let f = w.free() as u64;
                        let ch = ch3.load(Ordering::SeqCst);
                        if f < cap.saturating_sub(next - cl) || f > cap - (next - ch).min(cap) {
                            e3.lock().unwrap().push(("C03:free-count".into(), format!("free() = {f} but {next} committed and between {cl} and {ch} consumed (capacity {cap})")));
                        }
                    }
                    // The producer is the only committer, so exactly `next`
                    // samples are committed; consumes applied lie between what
                    // had finished before and what had started after.
                    let cl = cl3.load(Ordering::SeqCst);
                    let mut wb = match w.write_buf() {
                        Ok(b) => b,
                        Err(e) => {
                            e3.lock().unwrap().push(("C03:write_buf-err".into(), e.to_string()));
                            return;
                        }
                    };
                    let ch = ch3.load(Ordering::SeqCst);
                    let len = wb.len() as u64;
                    if len < cap.saturating_sub(next - cl) || len > cap - (next - ch).min(cap) {
                        e3.lock().unwrap().push(("C03:write-window-count".into(), format!("write window has {len} slots, but {next} committed and between {cl} and {ch} consumed (capacity {cap})")));
                    }
                    let _ = (&b3, &d3);
                    if len == 0 {
                        p3.lock().unwrap().push("producer_saw_full");
                        drop(wb);
                        if s3.with_src(|s| s.coin()) {
                            let _ = w.wait_for_write(1);
                        } else {
                            s3.point("producer-spin");
                        }
                        continue;
                    }
                    let want = (total - next).min(len);
                    let k = s3.with_src(|s| {
                        if small_chunks {
                            (s.range(1, 5) as u64).min(want)
                        } else {
                            match s.below(4) {
                                0 => want,
                                1 => (s.range(1, 64) as u64).min(want),
                                _ => s.range(1, want as usize) as u64,
                            }
                        }
                    });
                    for (i, p) in wb.slice().iter_mut().take(k as usize).enumerate() {
                        *p = (next + i as u64) as u32;
                    }
                    b3.store(next + k, Ordering::SeqCst);
                    // Every 7th sample carries a tag whose value is its index:
                    // tags must stay attached to their sample under every
                    // interleaving.
                    let tags: Vec<rustradio::stream::Tag> = (0..k)
                        .filter(|i| (next + i) % 7 == 0)
                        .map(|i| rustradio::stream::Tag::new(i as usize, "idx", rustradio::stream::TagValue::U64(next + i)))
                        .collect();
                    wb.produce(k as usize, &tags);
                    d3.store(next + k, Ordering::SeqCst);
                    next += k;
                }
                drop(w);
                pe3.store(true, Ordering::SeqCst);
            });
            // Consumer = root.
            let mut seen: u64 = 0;
            let mut guard = 0u64;
            loop {
                guard += 1;
                if guard > 200_000 {
                    e2.lock().unwrap().push(("C03:consumer-stuck".into(), "consumer loop exceeded its guard".into()));
                    break;
                }
                let exited_before = prod_exited.load(Ordering::SeqCst);
                let lo = done.load(Ordering::SeqCst).saturating_sub(seen);
                let (rb, tags) = match r.read_buf() {
                    Ok(x) => x,
                    Err(e) => {
                        e2.lock().unwrap().push(("C03:read_buf-err".into(), e.to_string()));
                        break;
                    }
                };
                let hi = begun.load(Ordering::SeqCst) - seen;
                let len = rb.len() as u64;
                if len < lo || len > hi {
                    e2.lock().unwrap().push(("C03:read-window-count".into(), format!("read window has {len} samples, but between {lo} and {hi} were committed and not consumed")));
                    break;
                }
                let sl = rb.slice();
                if let Some(i) = (0..sl.len()).find(|&i| sl[i] != (seen + i as u64) as u32) {
                    e2.lock().unwrap().push(("C03:sequence".into(), format!("read window sample {i} is {} but the committed sequence has {} there (window of {len} after {seen} consumed)", sl[i], seen + i as u64)));
                    break;
                }
                // Tags: exactly the multiples of 7 inside the window, each with
                // its own index as value, at the right window position.
                {
                    let want: Vec<(usize, u64)> = (0..len).filter(|i| (seen + i) % 7 == 0).map(|i| (i as usize, seen + i)).collect();
                    let got: Vec<(usize, u64)> = tags
                        .iter()
                        .map(|t| (t.pos(), if let rustradio::stream::TagValue::U64(v) = t.val() { *v } else { u64::MAX }))
                        .collect();
                    if got != want {
                        e2.lock().unwrap().push(("C03:tags".into(), format!("read window of {len} after {seen} consumed reports tags {:?}, expected {:?}", got.iter().take(6).collect::<Vec<_>>(), want.iter().take(6).collect::<Vec<_>>())));
                        break;
                    }
                }
                if len == 0 {
                    drop(rb);
                    p2.lock().unwrap().push("consumer_saw_empty");
                    if exited_before {
                        if seen != total {
                            e2.lock().unwrap().push(("C03:lost".into(), format!("producer exited after committing {total}, consumer could read only {seen}")));
                        }
                        break;
                    }
                    match s2.with_src(|s| s.below(3)) {
                        0 => {
                            let _ = r.wait_for_read(1);
                        }
                        1 => {
                            let _ = r.eof();
                        }
                        _ => s2.point("consumer-spin"),
                    }
                    continue;
                }
                let m = s2.with_src(|s| {
                    if small_chunks {
                        (s.range(0, 5) as u64).min(len)
                    } else {
                        match s.below(4) {
                            0 => len,
                            1 => (s.range(0, 64) as u64).min(len),
                            _ => s.range(0, len as usize) as u64,
                        }
                    }
                });
                consumed_hi.store(seen + m, Ordering::SeqCst);
                rb.consume(m as usize);
                consumed_lo.store(seen + m, Ordering::SeqCst);
                seen += m;
            }
            let _ = producer.join();
        });
        finish_sched(&sched, src, ctx);
        for p in probes.lock().unwrap().iter() {
            ctx.count(p);
        }
        let g = sched.lock();
        if g.counters.get("fault:preempt").copied().unwrap_or(0) > 0 {
            ctx.nontrivial = true;
        }
        if let Some(o) = g.windows.overlaps.first() {
            return Err(Violation::new("C03:window-overlap", o.clone()));
        }
        if let Some((_, name, msg, loc)) = g.panics.first() {
            return Err(Violation::new(format!("C03:panic:{name}"), format!("thread {name} panicked: {msg} at {loc}")));
        }
        if let Some((k, m)) = errors.lock().unwrap().first() {
            return Err(Violation::new(k.clone(), m.clone()));
        }
        match res {
            Ok(()) => Ok(()),
            Err(a) => match abort_violation("C03", a, &g, fair) {
                Some(v) => Err(v),
                None => {
                    drop(g);
                    ctx.count("unfair_schedule_budget_exhausted");
                    Ok(())
                }
            },
        }
    }
}

// ===========================================================================
// C04

pub struct EosCheck;

#[derive(Clone, Copy, Debug, PartialEq)]
enum EosKind {
    ReaderWaits,
    ReaderEofPoll,
    WriterWaits,
    NcReaderWaits,
    NcReaderEofPoll,
    NcWriterWaits,
}

impl Check for EosCheck {
    fn id(&self) -> &'static str {
        "C04"
    }
    fn rule(&self) -> String {
        "one run = one of six shapes (reader waits / reader polls eof() / writer waits for space, for sample streams and for packet streams): the peer thread commits or consumes a seeded number of pieces and then drops its end, while the other thread loops on wait(need) / eof() / closed() with seeded `need`; all interleavings and time-out firings are drawn from the seed. \
         Safety, evaluated at the instant the call returns (no scheduling point in between): a true verdict requires the peer end to be dropped and fewer than `need` samples (or free slots) to be present; everything committed is still readable afterwards. \
         Liveness (fair strategies only): once the peer is gone and the remainder is insufficient, the verdict is true within 2 calls. \
         non-trivial = the peer dropped its end while the other side was inside or between wait calls; distinct = hash of the scheduling trace".into()
    }
    fn assumptions(&self) -> Vec<String> {
        vec!["sequentially consistent interleavings; time-outs may fire at any scheduling point".into()]
    }
    fn real_vs_stub(&self) -> Value {
        json!({"real": ["ReadStream/WriteStream/NCReadStream/NCWriteStream wait, eof, closed; Buffer wait_for_read/wait_for_write"], "simulated": ["Mutex, Condvar with time-outs, threads, clock"], "stub": []})
    }
    fn budget(&self, tier: Tier) -> Budget {
        match tier {
            Tier::Quick => Budget { runs: 100000, max_secs: 45.0 },
            Tier::Thorough => Budget { runs: 5_000_000, max_secs: 900.0 },
        }
    }
    fn required(&self, _tier: Tier) -> Vec<&'static str> {
        vec!["fault:timeout_fired", "fault:peer_drop", "wait_returned_true", "wait_returned_false", "peer_dropped_during_wait_loop", "verdict_on_exactly_full_ring_after_writer_left", "committed_samples_straddle_the_ring_end"]
    }
    fn run(&self, src: &mut Src, ctx: &mut RunCtx) -> RunResult {
        let kind = *src.pick(&[EosKind::ReaderWaits, EosKind::ReaderEofPoll, EosKind::WriterWaits, EosKind::NcReaderWaits, EosKind::NcReaderEofPoll, EosKind::NcWriterWaits]);
        let deep = crate::engine::deep();
        let pieces = src.below(if deep { 13 } else { 5 });
        let big = deep && src.chance(1, 3);
        let mut piece_sizes: Vec<usize> = (0..pieces).map(|_| src.range(1, if big { 60 } else { 6 })).collect();
        // Sometimes the writer leaves the ring exactly full (read position ==
        // write position, like an empty ring) before it goes away.
        let fill_exact = matches!(kind, EosKind::ReaderWaits | EosKind::ReaderEofPoll) && src.chance(1, 6);
        if fill_exact {
            let cap = 1024; // one page of u32
            let k = *src.pick(&[0usize, 1, 5, 512, 1023]);
            piece_sizes = if k == 0 { vec![cap] } else { vec![k, cap - k] };
        }
        let total: usize = piece_sizes.iter().sum();
        let need = match src.below(5) {
            0 => 1,
            1 => total.max(1),
            2 => total + 1,
            3 => 5000, // more than the capacity of a one-page u32 stream
            _ => src.range(1, 8),
        };
        // Where in the ring the scenario starts: half of the reader shapes begin
        // close enough to the ring end for the committed samples to straddle it
        // (a verdict computed from the part before the end alone is wrong).
        let preroll = if matches!(kind, EosKind::ReaderWaits | EosKind::ReaderEofPoll) && src.chance(1, 2) { 1024 - src.range(1, (total + 2).min(1023)) } else { 0 };
        if preroll > 0 && preroll + total > 1024 {
            ctx.count("committed_samples_straddle_the_ring_end");
        }
        let cfg = SchedCfg::draw(src, if deep { 60_000 } else { 20_000 }, false);
        let fair = cfg.fair();
        ctx.ev(|| format!("C04 kind={kind:?} pieces={piece_sizes:?} need={need} preroll={preroll} cfg={cfg:?}"));
        if ctx.sample.is_none() {
            ctx.sample = Some(json!({"shape": format!("{kind:?}"), "pieces": piece_sizes, "need": need, "strategy": format!("{:?}", cfg.strategy), "timeout_bias": cfg.timeout_bias}));
        }
        let sched = Sched::new(take_src(src), cfg, ctx.verbose);
        let errors: Arc<Mutex<Vec<(String, String)>>> = Arc::new(Mutex::new(Vec::new()));
        let probes: Arc<Mutex<Vec<&'static str>>> = Arc::new(Mutex::new(Vec::new()));
        let (e2, p2, s2) = (errors.clone(), probes.clone(), sched.clone());
        let res = sched.run_root(move || {
            let peer_gone = Arc::new(AtomicBool::new(false));
            let pg = peer_gone.clone();
            let err = |k: &str, m: String| e2.lock().unwrap().push((k.to_string(), m));
            let probe = |k: &'static str| p2.lock().unwrap().push(k);
            match kind {
                EosKind::ReaderWaits | EosKind::ReaderEofPoll => {
                    rustradio::verif::set_stream_size(4096);
                    let (w, r) = new_stream::<u32>();
                    rustradio::verif::set_stream_size(0);
                    if preroll > 0 {
                        let wb = w.write_buf().expect("write_buf");
                        wb.produce(preroll, &[]);
                        let (b, _) = r.read_buf().expect("read_buf");
                        b.consume(preroll);
                    }
                    let s3 = s2.clone();
                    let ps = piece_sizes.clone();
                    let writer = spawn("writer", move || {
                        let mut v = 0u32;
                        for n in ps {
                            if s3.with_src(|s| s.chance(1, 4)) {
                                s3.point("writer-pause");
                            }
                            let mut wb = w.write_buf().expect("write_buf");
                            for p in wb.slice().iter_mut().take(n) {
                                *p = v;
                                v += 1;
                            }
                            wb.produce(n, &[]);
                        }
                        drop(w);
                        pg.store(true, Ordering::SeqCst);
                    });
                    let mut got: Vec<u32> = Vec::new();
                    let mut calls_after_gone = 0;
                    let mut guard = 0;
                    loop {
                        guard += 1;
                        if guard > 3000 {
                            err("C04:reader-never-released", format!("reader still not told the stream ended after {guard} iterations"));
                            break;
                        }
                        let gone_before = peer_gone.load(Ordering::SeqCst);
                        let verdict = if kind == EosKind::ReaderWaits { r.wait(need) } else { r.eof() };
                        let gone_after = peer_gone.load(Ordering::SeqCst);
                        // Facts at the return instant.
                        let avail = r.read_buf().map(|(b, _)| b.len()).unwrap_or(0);
                        if gone_before && avail == r.total_size() {
                            probe("verdict_on_exactly_full_ring_after_writer_left");
                        }
                        if !gone_before && gone_after {
                            probe("peer_dropped_during_wait_loop");
                        }
                        if verdict {
                            probe("wait_returned_true");
                            if !gone_after {
                                err("C04:true-while-writer-alive", format!("{kind:?}: told the request can never be satisfied while the writer still exists"));
                            }
                            let lim = if kind == EosKind::ReaderWaits { need } else { 1 };
                            if avail >= lim {
                                err(if kind == EosKind::ReaderWaits { "C04:wait-true-with-data" } else { "C04:eof-true-with-data" }, format!("{kind:?}: verdict 'never'/'eof' although {avail} samples are readable (need {lim}); writer committed {total} in total"));
                            }
                            // Everything committed must still be readable.
                            let (b, _) = r.read_buf().expect("read_buf");
                            got.extend_from_slice(b.slice());
                            let n = b.len();
                            b.consume(n);
                            if got.len() != total {
                                err("C04:data-lost-at-eos", format!("{kind:?}: after the end-of-stream verdict {} of {total} committed samples were readable", got.len()));
                            }
                            break;
                        }
                        probe("wait_returned_false");
                        if gone_before {
                            calls_after_gone += 1;
                            let remaining_insufficient = if kind == EosKind::ReaderWaits { avail < need } else { avail == 0 };
                            if remaining_insufficient && calls_after_gone >= 2 {
                                err("C04:not-released", format!("{kind:?}: writer gone and only {avail} samples remain (need {need}), but {calls_after_gone} further calls still said 'keep waiting'"));
                                break;
                            }
                        }
                        // Reader consumes sometimes (eof shape must drain to get eof).
                        let consume_now = kind == EosKind::ReaderEofPoll || (avail >= need) || s2.with_src(|s| s.chance(1, 3));
                        if consume_now && avail > 0 {
                            let (b, _) = r.read_buf().expect("read_buf");
                            let m = if kind == EosKind::ReaderEofPoll { b.len() } else { s2.with_src(|s| s.range(1, b.len())) };
                            got.extend_from_slice(&b.slice()[..m]);
                            b.consume(m);
                            calls_after_gone = 0;
                        }
                        if kind == EosKind::ReaderEofPoll {
                            // Poll loop needs a yield.
                            let _ = r.wait(1);
                        }
                    }
                    if got.iter().enumerate().any(|(i, v)| *v != i as u32) {
                        err("C04:sequence", format!("{kind:?}: samples out of order: {got:?}"));
                    }
                    let _ = writer.join();
                }
                EosKind::WriterWaits => {
                    rustradio::verif::set_stream_size(4096);
                    let (w, r) = new_stream::<u32>();
                    rustradio::verif::set_stream_size(0);
                    let cap = r.total_size();
                    // Pre-fill so that space is short.
                    let prefill = cap - total.min(cap);
                    {
                        let mut wb = w.write_buf().expect("write_buf");
                        for (i, p) in wb.slice().iter_mut().take(prefill).enumerate() {
                            *p = i as u32;
                        }
                        wb.produce(prefill, &[]);
                    }
                    let s3 = s2.clone();
                    let ps = piece_sizes.clone();
                    let reader = spawn("reader", move || {
                        for n in ps {
                            if s3.with_src(|s| s.chance(1, 4)) {
                                s3.point("reader-pause");
                            }
                            let (b, _) = r.read_buf().expect("read_buf");
                            let n = n.min(b.len());
                            b.consume(n);
                        }
                        drop(r);
                        pg.store(true, Ordering::SeqCst);
                    });
                    let wneed = if need > cap { cap + 1 } else { total + need };
                    let mut calls_after_gone = 0;
                    let mut guard = 0;
                    loop {
                        guard += 1;
                        if guard > 3000 {
                            err("C04:writer-never-released", "writer still waiting for space after 3000 iterations".into());
                            break;
                        }
                        let gone_before = peer_gone.load(Ordering::SeqCst);
                        let verdict = w.wait(wneed);
                        let gone_after = peer_gone.load(Ordering::SeqCst);
                        let free = w.free();
                        if !gone_before && gone_after {
                            probe("peer_dropped_during_wait_loop");
                        }
                        if verdict {
                            probe("wait_returned_true");
                            if !gone_after {
                                err("C04:true-while-reader-alive", "writer told space will never come while the reader still exists".into());
                            }
                            if free >= wneed {
                                err("C04:wait-true-with-space", format!("writer told 'never' although {free} slots are free (need {wneed})"));
                            }
                            break;
                        }
                        probe("wait_returned_false");
                        if free >= wneed {
                            break; // satisfied: fine
                        }
                        if gone_before {
                            calls_after_gone += 1;
                            if calls_after_gone >= 2 {
                                err("C04:not-released", format!("reader gone and only {free} free (need {wneed}), but {calls_after_gone} further calls still said 'keep waiting'"));
                                break;
                            }
                        }
                    }
                    let _ = reader.join();
                }
                EosKind::NcReaderWaits | EosKind::NcReaderEofPoll => {
                    let (w, r) = new_nocopy_stream::<Vec<u8>>();
                    let s3 = s2.clone();
                    let npk = pieces;
                    let writer = spawn("writer", move || {
                        for i in 0..npk {
                            if s3.with_src(|s| s.chance(1, 4)) {
                                s3.point("writer-pause");
                            }
                            w.push(vec![i as u8], &[]);
                        }
                        drop(w);
                        pg.store(true, Ordering::SeqCst);
                    });
                    let need = if need > 100 { npk + 1 } else { need };
                    let mut got: Vec<u8> = Vec::new();
                    let mut calls_after_gone = 0;
                    let mut guard = 0;
                    loop {
                        guard += 1;
                        if guard > 3000 {
                            err("C04:reader-never-released", "packet reader still not released after 3000 iterations".into());
                            break;
                        }
                        let gone_before = peer_gone.load(Ordering::SeqCst);
                        let verdict = if kind == EosKind::NcReaderWaits { r.wait(need) } else { r.eof() };
                        let gone_after = peer_gone.load(Ordering::SeqCst);
                        let avail = r.verif_len();
                        if !gone_before && gone_after {
                            probe("peer_dropped_during_wait_loop");
                        }
                        if verdict {
                            probe("wait_returned_true");
                            if !gone_after {
                                err("C04:true-while-writer-alive", format!("{kind:?}: end-of-stream verdict while the writer still exists"));
                            }
                            let lim = if kind == EosKind::NcReaderWaits { need } else { 1 };
                            if avail >= lim {
                                err(if kind == EosKind::NcReaderWaits { "C04:nc-wait-true-with-data" } else { "C04:nc-eof-true-with-data" }, format!("{kind:?}: verdict 'never'/'eof' although {avail} packets are queued (need {lim})"));
                            }
                            while let Some((p, _)) = r.pop() {
                                got.push(p[0]);
                            }
                            if got.len() != npk {
                                err("C04:data-lost-at-eos", format!("{kind:?}: {} of {npk} pushed packets were readable after the verdict", got.len()));
                            }
                            break;
                        }
                        probe("wait_returned_false");
                        if gone_before {
                            calls_after_gone += 1;
                            let insufficient = if kind == EosKind::NcReaderWaits { avail < need } else { avail == 0 };
                            if insufficient && calls_after_gone >= 2 {
                                err("C04:not-released", format!("{kind:?}: writer gone, {avail} packets queued (need {need}), still told to keep waiting after {calls_after_gone} calls"));
                                break;
                            }
                        }
                        if kind == EosKind::NcReaderEofPoll || avail >= need || s2.with_src(|s| s.chance(1, 3)) {
                            if let Some((p, _)) = r.pop() {
                                got.push(p[0]);
                                calls_after_gone = 0;
                            }
                        }
                        if kind == EosKind::NcReaderEofPoll {
                            let _ = r.wait(1);
                        }
                    }
                    if got.iter().enumerate().any(|(i, v)| *v != i as u8) {
                        err("C04:sequence", format!("{kind:?}: packets out of order: {got:?}"));
                    }
                    let _ = writer.join();
                }
                EosKind::NcWriterWaits => {
                    let (w, r) = new_nocopy_stream::<Vec<u8>>();
                    let s3 = s2.clone();
                    let reader = spawn("reader", move || {
                        for _ in 0..pieces {
                            s3.point("reader-pause");
                            let _ = r.pop();
                        }
                        drop(r);
                        pg.store(true, Ordering::SeqCst);
                    });
                    let mut guard = 0;
                    loop {
                        guard += 1;
                        if guard > 3000 {
                            err("C04:writer-never-released", "packet writer never told its reader is gone".into());
                            break;
                        }
                        let gone_before = peer_gone.load(Ordering::SeqCst);
                        let verdict = w.wait(1);
                        let closed = w.closed();
                        let gone_after = peer_gone.load(Ordering::SeqCst);
                        if !gone_before && gone_after {
                            probe("peer_dropped_during_wait_loop");
                        }
                        if verdict || closed {
                            probe("wait_returned_true");
                            if !gone_after {
                                err("C04:true-while-reader-alive", "packet writer told its reader is gone while it still exists".into());
                            }
                            break;
                        }
                        probe("wait_returned_false");
                        if gone_before {
                            err("C04:not-released", "reader gone but packet writer's wait()/closed() still false".into());
                            break;
                        }
                        w.push(vec![0], &[]);
                        s2.point("writer-loop");
                    }
                    let _ = reader.join();
                }
            }
        });
        finish_sched(&sched, src, ctx);
        ctx.count("fault:peer_drop");
        for p in probes.lock().unwrap().iter() {
            ctx.count(p);
        }
        if probes.lock().unwrap().contains(&"peer_dropped_during_wait_loop") {
            ctx.nontrivial = true;
        }
        let g = sched.lock();
        if let Some((_, name, msg, loc)) = g.panics.first() {
            return Err(Violation::new(format!("C04:panic:{name}"), format!("thread {name} panicked: {msg} at {loc}")));
        }
        // Liveness findings only under fair strategies.
        for (k, m) in errors.lock().unwrap().iter() {
            let liveness = k.contains("not-released") || k.contains("never-released");
            if liveness && !fair {
                continue;
            }
            return Err(Violation::new(k.clone(), m.clone()));
        }
        match res {
            Ok(()) => Ok(()),
            Err(a) => match abort_violation("C04", a, &g, fair) {
                Some(v) => Err(v),
                None => Ok(()),
            },
        }
    }
}

// ===========================================================================
// C05 and C07 (MTGraph leg)

pub struct MtGraphCheck;

const SMALL_SIZES: [usize; 4] = [4096, 4096, 8192, 16384];

fn shuffle<T>(v: &mut Vec<T>, src: &mut Src) -> Vec<usize> {
    // Fisher-Yates; returns the permutation for the trace.
    let n = v.len();
    let mut perm: Vec<usize> = (0..n).collect();
    for i in (1..n).rev() {
        let j = src.below(i + 1);
        v.swap(i, j);
        perm.swap(i, j);
    }
    perm
}

impl Check for MtGraphCheck {
    fn id(&self) -> &'static str {
        "C05"
    }
    fn rule(&self) -> String {
        "one run = one generated graph (chain of 0-6 stages over the block library incl. rate changers, FIR/FFT filters, one tee/merge diamond, HDLC packet stage; VectorSource of 0..3*capacity+r samples; collector or VectorSink) executed by the real MTGraph::run under the baton scheduler: every block thread's lock/unlock/wait/notify/time-out/spawn/join/exit/cancel-flag point is a seeded decision; stream size 1-4 pages; add order shuffled. \
         Checked: run() returns within the step budget (fair strategies), no thread is left, no block thread panicked, and the sink holds exactly what a sequential reference execution of the same recipe on large streams produced. \
         non-trivial = at least two block threads ran and a context switch happened; distinct = hash of recipe and scheduling trace".into()
    }
    fn assumptions(&self) -> Vec<String> {
        vec![
            "reference = same block code driven sequentially in topological order on large streams (blocks' own functions are C08/C10's business)".into(),
            "diamond branch skew is kept below capacity/4 (larger skews deadlock any bounded-buffer dataflow)".into(),
            "packets (StreamToPdu max_size) are kept to at most half the stream capacity: VecToStream writes a vector in one piece and can never deliver one larger than its output stream (the hook-shrunk stream is the artefact, not the block: with the shipped 4 MB streams that is a packet of over a million samples)".into(),
            "sequentially consistent interleavings".into(),
        ]
    }
    fn real_vs_stub(&self) -> Value {
        json!({"real": ["MTGraph::run, all library blocks in the recipes, streams"], "simulated": ["threads, Mutex, Condvar time-outs, AtomicBool, sleep, clock"], "stub": ["sink = harness Collector block (or the library VectorSink)"]})
    }
    fn budget(&self, tier: Tier) -> Budget {
        match tier {
            Tier::Quick => Budget { runs: 3000, max_secs: 50.0 },
            Tier::Thorough => Budget { runs: 300_000, max_secs: 1200.0 },
        }
    }
    fn required(&self, _tier: Tier) -> Vec<&'static str> {
        vec!["fault:preempt", "fault:timeout_fired", "thread_spawned", "mutex_contended"]
    }
    fn run(&self, src: &mut Src, ctx: &mut RunCtx) -> RunResult {
        mtgraph_run(src, ctx, "C05", None)
    }
}

pub enum C07Mode {
    Cancel,
    Fail,
    /// A failing block in a graph that is also cancelled (by a canceller
    /// thread, or by the failing block itself right before it fails).
    FailCancel,
}

/// Shared by C05 and the MTGraph leg of C07.
pub fn mtgraph_run(src: &mut Src, ctx: &mut RunCtx, prop: &'static str, c07: Option<C07Mode>) -> RunResult {
    let small = *src.pick(&SMALL_SIZES);
    let mut recipe = gen_recipe(src, small, if c07.is_some() { 3 } else if crate::engine::deep() { 9 } else { 6 });
    let mut fail_pos = None;
    let mut bystander = false;
    let mut lone = false;
    match &c07 {
        Some(C07Mode::Cancel) => {
            recipe.infinite = src.chance(2, 3);
            // Infinite sources only feed rate-1 friendly chains; keep what was drawn.
        }
        Some(C07Mode::Fail) | Some(C07Mode::FailCancel) => {
            let pos = src.below(recipe.stages.len() + 1);
            // With the endless bystander chain the failure has to be certain
            // (nothing else ever ends that graph): the block fails on its
            // first call, which every block thread makes.
            bystander = matches!(c07, Some(C07Mode::Fail)) && src.coin();
            // Or the failing block is the only block of the graph (every
            // other block of the recipe is dropped before the run): no block
            // ends normally, nothing is left to report statistics about.
            lone = matches!(c07, Some(C07Mode::Fail)) && !bystander && src.chance(1, 6);
            let k = if bystander || lone { 1 } else { src.range(1, 6) as u64 };
            // Insert outside diamonds.
            recipe.stages.insert(pos, Stage::Fail(k));
            fail_pos = Some((pos, k));
            if recipe.src_len == 0 {
                recipe.src_len = 5;
            }
            recipe.infinite = src.chance(1, 3);
        }
        None => {}
    }
    // Fail stage changes no type; but gen_recipe's later stages were typed
    // against the chain, so inserting a pass-through is type-safe.
    // FailCancel: half the time the failing block cancels the graph itself in
    // the failing call; otherwise a canceller thread does, at a drawn point.
    let self_cancel = matches!(c07, Some(C07Mode::FailCancel)) && src.coin();
    let cancel_after = match c07 {
        Some(C07Mode::Cancel) => Some(src.below(400)),
        Some(C07Mode::FailCancel) if !self_cancel => Some(src.below(120)),
        _ => None,
    };
    // Spawn failure is not part of C07 as stated; the fault kind stays available but off.
    let spawn_fail: Option<usize> = None;
    let mut cfg = SchedCfg::draw(src, 3_000_000, false);
    cfg.stall_steps = 40_000;
    cfg.spawn_fail_at = spawn_fail;
    let fair = cfg.fair();
    ctx.ev(|| format!("{prop} recipe={} stream_bytes={small} cancel_after={cancel_after:?} fail={fail_pos:?} spawn_fail={spawn_fail:?} cfg={cfg:?}", recipe.describe()));
    if ctx.sample.is_none() {
        ctx.sample = Some(json!({"recipe": recipe.describe(), "stream_bytes": small, "strategy": format!("{:?}", cfg.strategy), "timeout_bias": cfg.timeout_bias, "cancel_after_points": cancel_after, "failing_block": fail_pos.map(|f| format!("stage {} fails on call {}", f.0, f.1))}));
    }
    // Reference (not for cancel/fail runs).
    let reference = if c07.is_none() {
        let solo = Solo::new();
        match solo.with(|| catch(|| reference_execute(&recipe, 128 * 4096))) {
            Ok(Ok(b)) => Some(b),
            Ok(Err(e)) => return Err(Violation::new("HARNESS-PANIC reference", e)),
            Err(p) => return Err(Violation::new(format!("{prop}:reference-panicked:{}", p.site()), format!("sequential reference execution panicked: {} at {}", p.msg, p.loc))),
        }
    } else {
        None
    };
    let sched = Sched::new(take_src(src), cfg, ctx.verbose);
    let probe = Arc::new(CancelProbe::default());
    let counters: Arc<Mutex<Vec<(String, Arc<AtomicU64>, Arc<AtomicU64>)>>> = Arc::new(Mutex::new(Vec::new()));
    let sink_out: Arc<Mutex<Option<Vec<u8>>>> = Arc::new(Mutex::new(None));
    let run_result: Arc<Mutex<Option<Result<(), String>>>> = Arc::new(Mutex::new(None));
    let (s2, p2, c2, so2, rr2) = (sched.clone(), probe.clone(), counters.clone(), sink_out.clone(), run_result.clone());
    let rec2 = recipe.clone();
    let live_after: Arc<AtomicU64> = Arc::new(AtomicU64::new(0));
    let la2 = live_after.clone();
    let fail_flag: Arc<Mutex<Option<Arc<AtomicBool>>>> = Arc::new(Mutex::new(None));
    let ff2 = fail_flag.clone();
    let res = sched.run_root(move || {
        rustradio::verif::set_stream_size(small);
        let mut built = build(&rec2);
        rustradio::verif::set_stream_size(0);
        *ff2.lock().unwrap() = built.fail_flags.first().cloned();
        let mut blocks: Vec<Box<dyn Block + Send>> = Vec::new();
        let token_slot = Arc::new(Mutex::new(None));
        if bystander {
            // An independent endless chain in the same graph: it never ends by
            // itself, only through the cancellation a failure must trigger.
            let (s, r) = rustradio::blocks::ConstantSource::<u8>::new(7);
            built.blocks.push(Box::new(s));
            built.blocks.push(Box::new(rustradio::blocks::NullSink::new(r)));
        }
        if let Some(f) = built.fail_flags.first() {
            let mut g = s2.lock();
            g.watch = Some(f.clone());
            g.watch_bound = 300_000;
        }
        if lone {
            built.blocks.retain(|b| b.block_name() == "FailAt");
            s2.lock().count("failing_block_alone_in_the_graph");
        }
        for b in std::mem::take(&mut built.blocks) {
            let name = b.block_name().to_string();
            let b: Box<dyn Block + Send> = if self_cancel && name == "FailAt" {
                Box::new(crate::graphsim::CancelAt { inner: b, token: token_slot.clone(), k: fail_pos.map(|f| f.1).unwrap_or(1), calls: 0, probe: p2.clone() })
            } else {
                b
            };
            let (c, calls, after) = Counted::new(b, p2.clone());
            c2.lock().unwrap().push((name, calls, after));
            blocks.push(Box::new(c));
        }
        let perm = s2.with_src(|s| shuffle(&mut blocks, s));
        s2.note(|| format!("add order {perm:?}"));
        let mut g = MTGraph::new();
        for b in blocks {
            g.add(b);
        }
        let token = g.cancel_token();
        *token_slot.lock().unwrap() = Some(g.cancel_token());
        let canceller = cancel_after.map(|k| {
            let s3 = s2.clone();
            let p3 = p2.clone();
            spawn("canceller", move || {
                for _ in 0..k {
                    s3.point("canceller-idle");
                }
                token.cancel();
                p3.cancelled.store(true, Ordering::SeqCst);
            })
        });
        let r = match catch(|| g.run()) {
            Ok(r) => r,
            Err(p) => Err(rustradio::Error::msg(format!("RUN-PANICKED: {} at {}", p.msg, p.loc))),
        };
        // Threads other than root and canceller must be gone.
        let live = s2.lock().live_threads() as u64;
        la2.store(live, Ordering::SeqCst);
        *rr2.lock().unwrap() = Some(r.map_err(|e| e.to_string()));
        if let Some(c) = canceller {
            let _ = c.join();
        }
        *so2.lock().unwrap() = Some(built.all_sink_bytes());
    });
    finish_sched(&sched, src, ctx);
    let g = sched.lock();
    if g.counters.get("thread_spawned").copied().unwrap_or(0) >= 2 && g.counters.get("fault:preempt").copied().unwrap_or(0) > 0 {
        ctx.nontrivial = true;
    }
    ctx.hash.add_bytes(format!("{}", recipe.describe()).as_bytes());
    // Block thread panics (e.g. a bug in a block under a rare interleaving).
    let block_panic = g.panics.iter().find(|p| p.1 != "root").cloned();
    let root_panic = g.panics.iter().find(|p| p.1 == "root").cloned();
    let injected_failure = matches!(c07, Some(C07Mode::Fail) | Some(C07Mode::FailCancel));
    if let Some((_, name, msg, loc)) = &block_panic {
        return Err(Violation::new(format!("{prop}:block-thread-panicked:{name}"), format!("thread {name} panicked: {msg} at {loc}")));
    }
    if let Some((_, _, msg, loc)) = &root_panic {
        return Err(Violation::new(
            format!("{prop}:run-panicked"),
            format!("MTGraph::run() unwound instead of returning{}: {msg} at {loc}", if injected_failure { " the block's error" } else { "" }),
        ));
    }
    match res {
        Err(a) => {
            if let Some(v) = abort_violation(prop, a, &g, fair) {
                return Err(v);
            }
            if a == Abort::StepBudget || a == Abort::Stalled || a == Abort::Deadline {
                drop(g);
                ctx.count("inconclusive_budget_or_unfair_stall");
            }
            return Ok(());
        }
        Ok(()) => {}
    }
    drop(g);
    let rr = run_result.lock().unwrap().clone();
    let live = live_after.load(Ordering::SeqCst);
    let expected_live = 1 + cancel_after.is_some() as u64; // root (+ canceller, maybe already gone)
    if live > expected_live {
        return Err(Violation::new(format!("{prop}:threads-left"), format!("{live} managed threads alive when run() returned (expected at most {expected_live})")));
    }
    if let Some(Err(e)) = &rr {
        if e.contains("RUN-PANICKED") {
            return Err(Violation::new(format!("{prop}:run-panicked"), format!("MTGraph::run() unwound instead of returning{}: {e}", if injected_failure { " the block's error" } else { "" })));
        }
    }
    match c07 {
        None => {
            match rr {
                Some(Ok(())) => {}
                Some(Err(e)) => return Err(Violation::new(format!("{prop}:run-err"), format!("MTGraph::run() failed: {e}"))),
                None => return Err(Violation::new("HARNESS-PANIC no result", "root finished without a result")),
            }
            let got = sink_out.lock().unwrap().clone().unwrap_or_default();
            let want = reference.unwrap();
            if got != want {
                let d = crate::rigcheck::first_diff(&want, &got).unwrap_or(0);
                return Err(Violation::new(
                    format!("{prop}:sink-differs"),
                    format!("sink holds {} bytes, sequential reference {} bytes, first difference at byte {d}; recipe {}", got.len(), want.len(), recipe.describe()),
                ));
            }
            ctx.count("sink_equals_reference");
        }
        Some(C07Mode::Cancel) => {
            match rr {
                Some(Ok(())) => {}
                Some(Err(e)) => return Err(Violation::new("C07:cancel-run-err", format!("cancelled MTGraph::run() returned an error: {e}"))),
                None => return Err(Violation::new("HARNESS-PANIC no result", "root finished without a result")),
            }
            ctx.count("fault:cancel");
            for (name, _calls, after) in counters.lock().unwrap().iter() {
                let a = after.load(Ordering::SeqCst);
                if a > 2 {
                    return Err(Violation::new("C07:mt-work-after-cancel", format!("block {name} was invoked {a} more times after cancel() had returned (bound 2)")));
                }
                if a > 0 {
                    ctx.count("work_call_after_cancel");
                }
            }
        }
        Some(C07Mode::Fail) | Some(C07Mode::FailCancel) => {
            ctx.count("fault:block_error");
            if probe.cancelled.load(Ordering::SeqCst) && fail_flag.lock().unwrap().as_ref().map(|f| f.load(Ordering::SeqCst)).unwrap_or(false) {
                ctx.count("block_error_in_a_cancelled_graph");
            }
            let reached = fail_flag.lock().unwrap().as_ref().map(|f| f.load(Ordering::SeqCst)).unwrap_or(false);
            match rr {
                Some(Err(e)) => {
                    if !e.contains(FAIL_MARK) {
                        return Err(Violation::new("C07:mt-wrong-error", format!("run() returned an error that is not the failing block's: {e}")));
                    }
                    ctx.count("block_error_returned");
                }
                Some(Ok(())) => {
                    // Only a violation if the failing call actually happened.
                    if reached {
                        return Err(Violation::new("C07:mt-error-swallowed", "MTGraph::run() returned Ok(()) although a block's work() had failed"));
                    }
                    ctx.count("failing_call_not_reached");
                }
                None => return Err(Violation::new("HARNESS-PANIC no result", "root finished without a result")),
            }
        }
    }
    Ok(())
}

