//! rig: the drip-feed environment for one block. The harness owns every
//! upstream write end and downstream read end; the block talks to real
//! mmap-backed streams; only *when* data and space appear is simulated.

use std::any::Any;

use rustradio::Complex;
use rustradio::block::{Block, BlockRet};
use rustradio::stream::{
    NCReadStream, NCWriteStream, ReadStream, StreamWait, Tag, TagValue, WriteStream,
    new_nocopy_stream, new_stream,
};

use crate::engine::{Panicked, RunCtx, catch};
use crate::rt::Solo;
use crate::src::Src;

// ---------------------------------------------------------------------------
// Sample plumbing.

pub trait Bits: Copy + Send + Sync + std::fmt::Debug + 'static {
    fn bits(&self, out: &mut Vec<u8>);
}
macro_rules! bits_int {
    ($($t:ty),*) => {$(
        impl Bits for $t {
            fn bits(&self, out: &mut Vec<u8>) { out.extend_from_slice(&self.to_le_bytes()); }
        }
    )*};
}
bits_int!(u8, u16, u32, u64, i16, i32);
// NaN payloads and signs are not specified by any block's documentation (and
// operand order of commutative float ops is the compiler's choice), so all
// NaNs compare equal here. Raw bit identity of the codecs is C14's business.
fn canon(f: f32) -> u32 {
    if f.is_nan() { 0x7fc0_0000 } else { f.to_bits() }
}
impl Bits for f32 {
    fn bits(&self, out: &mut Vec<u8>) {
        out.extend_from_slice(&canon(*self).to_le_bytes());
    }
}
impl Bits for Complex {
    fn bits(&self, out: &mut Vec<u8>) {
        out.extend_from_slice(&canon(self.re).to_le_bytes());
        out.extend_from_slice(&canon(self.im).to_le_bytes());
    }
}

pub type TagRec = (u64, String, TagValue);

thread_local! {
    /// Debugging aid (VERIF_PER_ADAPTER=1): count output-full situations per adapter.
    static PER_ADAPTER: bool = std::env::var("VERIF_PER_ADAPTER").is_ok();
}

pub fn tagval_bits(v: &TagValue) -> String {
    match v {
        TagValue::Float(f) => format!("F{:08x}", f.to_bits()),
        o => format!("{o:?}"),
    }
}

pub trait InPort: Send {
    fn id(&self) -> usize;
    fn total(&self) -> usize;
    fn fed(&self) -> usize;
    fn space(&self) -> usize;
    fn backlog(&self) -> usize;
    fn capacity(&self) -> usize;
    fn feed(&mut self, k: usize) -> usize;
    fn close(&mut self);
    fn is_open(&self) -> bool;
    fn refcount(&self) -> usize;
    fn preroll(&self, pos: usize);
    fn is_nc(&self) -> bool;
    fn as_any(&self) -> &dyn Any;
}

pub trait OutPort: Send {
    fn id(&self) -> usize;
    fn available(&self) -> usize;
    fn capacity(&self) -> usize;
    fn drain(&mut self, m: usize) -> usize;
    fn collected(&self) -> usize;
    fn bytes(&self) -> &[u8];
    fn item_bytes(&self, i: usize) -> String;
    fn tags(&self) -> &[TagRec];
    fn close(&mut self);
    fn is_open(&self) -> bool;
    fn refcount(&self) -> usize;
    fn preroll(&self, pos: usize);
    fn is_nc(&self) -> bool;
    fn as_any(&self) -> &dyn Any;
}

pub struct StreamIn<T: Bits> {
    w: Option<WriteStream<T>>,
    id: usize,
    cap: usize,
    pub data: Vec<T>,
    /// Sorted by index.
    pub tags: Vec<TagRec>,
    pos: usize,
}

impl<T: Bits> StreamIn<T> {
    pub fn new(data: Vec<T>, mut tags: Vec<TagRec>) -> (Box<Self>, ReadStream<T>) {
        let (w, r) = new_stream::<T>();
        tags.sort_by_key(|t| t.0);
        let id = w.verif_id();
        let cap = w.verif_capacity();
        (
            Box::new(Self {
                w: Some(w),
                id,
                cap,
                data,
                tags,
                pos: 0,
            }),
            r,
        )
    }
}

impl<T: Bits> InPort for StreamIn<T> {
    fn id(&self) -> usize {
        self.id
    }
    fn total(&self) -> usize {
        self.data.len()
    }
    fn fed(&self) -> usize {
        self.pos
    }
    fn space(&self) -> usize {
        self.w.as_ref().map(|w| w.free()).unwrap_or(0)
    }
    fn backlog(&self) -> usize {
        self.w.as_ref().map(|w| self.cap - w.free()).unwrap_or(0)
    }
    fn capacity(&self) -> usize {
        self.cap
    }
    fn feed(&mut self, k: usize) -> usize {
        let Some(w) = &self.w else { return 0 };
        let mut wb = w.write_buf().expect("harness write_buf");
        let k = k.min(wb.len()).min(self.data.len() - self.pos);
        if k == 0 {
            return 0;
        }
        wb.slice()[..k].copy_from_slice(&self.data[self.pos..self.pos + k]);
        let lo = self.pos as u64;
        let hi = (self.pos + k) as u64;
        let tags: Vec<Tag> = self
            .tags
            .iter()
            .filter(|t| t.0 >= lo && t.0 < hi)
            .map(|t| Tag::new((t.0 - lo) as usize, t.1.clone(), t.2.clone()))
            .collect();
        wb.produce(k, &tags);
        self.pos += k;
        k
    }
    fn close(&mut self) {
        self.w = None;
    }
    fn is_open(&self) -> bool {
        self.w.is_some()
    }
    fn refcount(&self) -> usize {
        self.w.as_ref().map(|w| w.verif_refcount()).unwrap_or(0)
    }
    fn preroll(&self, pos: usize) {
        if let Some(w) = &self.w {
            w.verif_preroll(pos);
        }
    }
    fn is_nc(&self) -> bool {
        false
    }
    fn as_any(&self) -> &dyn Any {
        self
    }
}

pub struct NcIn<P: Send + Clone + 'static> {
    w: Option<NCWriteStream<P>>,
    id: usize,
    pub packets: Vec<P>,
    pos: usize,
}

impl<P: Send + Clone + 'static> NcIn<P> {
    pub fn new(packets: Vec<P>) -> (Box<Self>, NCReadStream<P>) {
        let (w, r) = new_nocopy_stream::<P>();
        let id = w.verif_id();
        (
            Box::new(Self {
                w: Some(w),
                id,
                packets,
                pos: 0,
            }),
            r,
        )
    }
}

impl<P: Send + Clone + 'static> InPort for NcIn<P> {
    fn id(&self) -> usize {
        self.id
    }
    fn total(&self) -> usize {
        self.packets.len()
    }
    fn fed(&self) -> usize {
        self.pos
    }
    fn space(&self) -> usize {
        usize::MAX / 2
    }
    fn backlog(&self) -> usize {
        self.w.as_ref().map(|w| w.verif_len()).unwrap_or(0)
    }
    fn capacity(&self) -> usize {
        usize::MAX / 2
    }
    fn feed(&mut self, k: usize) -> usize {
        let Some(w) = &self.w else { return 0 };
        let k = k.min(self.packets.len() - self.pos);
        for i in 0..k {
            w.push(self.packets[self.pos + i].clone(), &[]);
        }
        self.pos += k;
        k
    }
    fn close(&mut self) {
        self.w = None;
    }
    fn is_open(&self) -> bool {
        self.w.is_some()
    }
    fn refcount(&self) -> usize {
        self.w.as_ref().map(|w| w.verif_refcount()).unwrap_or(0)
    }
    fn preroll(&self, _pos: usize) {}
    fn is_nc(&self) -> bool {
        true
    }
    fn as_any(&self) -> &dyn Any {
        self
    }
}

pub struct StreamOut<T: Bits> {
    r: Option<ReadStream<T>>,
    id: usize,
    cap: usize,
    pub got: Vec<T>,
    bytes: Vec<u8>,
    pub tags: Vec<TagRec>,
}

impl<T: Bits> StreamOut<T> {
    pub fn new(r: ReadStream<T>) -> Box<Self> {
        let id = StreamWait::verif_id(&r);
        let cap = r.total_size();
        Box::new(Self {
            r: Some(r),
            id,
            cap,
            got: Vec::new(),
            bytes: Vec::new(),
            tags: Vec::new(),
        })
    }
}

impl<T: Bits> OutPort for StreamOut<T> {
    fn id(&self) -> usize {
        self.id
    }
    fn available(&self) -> usize {
        match &self.r {
            Some(r) => r.read_buf().map(|(b, _)| b.len()).unwrap_or(0),
            None => 0,
        }
    }
    fn capacity(&self) -> usize {
        self.cap
    }
    fn drain(&mut self, m: usize) -> usize {
        let Some(r) = &self.r else { return 0 };
        let (b, tags) = r.read_buf().expect("harness read_buf");
        let m = m.min(b.len());
        let base = self.got.len() as u64;
        for t in tags {
            if t.pos() < m {
                self.tags
                    .push((base + t.pos() as u64, t.key().to_string(), t.val().clone()));
            }
        }
        for s in &b.slice()[..m] {
            self.got.push(*s);
            s.bits(&mut self.bytes);
        }
        b.consume(m);
        m
    }
    fn collected(&self) -> usize {
        self.got.len()
    }
    fn bytes(&self) -> &[u8] {
        &self.bytes
    }
    fn item_bytes(&self, i: usize) -> String {
        self.got.get(i).map(|x| format!("{x:?}")).unwrap_or_else(|| "<none>".into())
    }
    fn tags(&self) -> &[TagRec] {
        &self.tags
    }
    fn close(&mut self) {
        self.r = None;
    }
    fn is_open(&self) -> bool {
        self.r.is_some()
    }
    fn refcount(&self) -> usize {
        self.r.as_ref().map(|r| r.verif_refcount()).unwrap_or(0)
    }
    fn preroll(&self, pos: usize) {
        if let Some(r) = &self.r {
            r.verif_preroll(pos);
        }
    }
    fn is_nc(&self) -> bool {
        false
    }
    fn as_any(&self) -> &dyn Any {
        self
    }
}

/// Packet output. `ser` turns a packet into bytes for comparison.
pub struct NcOut<P: Send + 'static> {
    r: Option<NCReadStream<P>>,
    id: usize,
    pub got: Vec<P>,
    bytes: Vec<u8>,
    ser: fn(&P, &mut Vec<u8>),
}

impl<P: Send + 'static> NcOut<P> {
    pub fn new(r: NCReadStream<P>, ser: fn(&P, &mut Vec<u8>)) -> Box<Self> {
        let id = StreamWait::verif_id(&r);
        Box::new(Self {
            r: Some(r),
            id,
            got: Vec::new(),
            bytes: Vec::new(),
            ser,
        })
    }
}

impl<P: Send + std::fmt::Debug + 'static> OutPort for NcOut<P> {
    fn id(&self) -> usize {
        self.id
    }
    fn available(&self) -> usize {
        self.r.as_ref().map(|r| r.verif_len()).unwrap_or(0)
    }
    fn capacity(&self) -> usize {
        usize::MAX / 2
    }
    fn drain(&mut self, m: usize) -> usize {
        let Some(r) = &self.r else { return 0 };
        let mut n = 0;
        while n < m {
            match r.pop() {
                Some((p, _)) => {
                    // Length-prefix so that packet boundaries are compared too.
                    let start = self.bytes.len();
                    self.bytes.extend_from_slice(&[0; 4]);
                    (self.ser)(&p, &mut self.bytes);
                    let l = (self.bytes.len() - start - 4) as u32;
                    self.bytes[start..start + 4].copy_from_slice(&l.to_le_bytes());
                    self.got.push(p);
                    n += 1;
                }
                None => break,
            }
        }
        n
    }
    fn collected(&self) -> usize {
        self.got.len()
    }
    fn bytes(&self) -> &[u8] {
        &self.bytes
    }
    fn item_bytes(&self, i: usize) -> String {
        self.got.get(i).map(|x| format!("{x:?}")).unwrap_or_else(|| "<none>".into())
    }
    fn tags(&self) -> &[TagRec] {
        &[]
    }
    fn close(&mut self) {
        self.r = None;
    }
    fn is_open(&self) -> bool {
        self.r.is_some()
    }
    fn refcount(&self) -> usize {
        self.r.as_ref().map(|r| r.verif_refcount()).unwrap_or(0)
    }
    fn preroll(&self, _pos: usize) {}
    fn is_nc(&self) -> bool {
        true
    }
    fn as_any(&self) -> &dyn Any {
        self
    }
}

pub fn ser_vec<T: Bits>(p: &Vec<T>, out: &mut Vec<u8>) {
    for x in p {
        x.bits(out);
    }
}
pub fn ser_string(p: &String, out: &mut Vec<u8>) {
    out.extend_from_slice(p.as_bytes());
}

// ---------------------------------------------------------------------------
// A case: one block instance wired to harness ports.

pub type RefCheck = Box<dyn Fn(&Case, bool) -> Result<(), String> + Send>;
pub type TagExpect = Box<dyn Fn(&Case) -> Vec<Vec<TagRec>> + Send>;

pub struct Case {
    pub kind: &'static str,
    pub params: String,
    pub block: Option<Box<dyn Block + Send>>,
    pub ins: Vec<Box<dyn InPort>>,
    pub outs: Vec<Box<dyn OutPort>>,
    /// Reference model check (C10/C11). Second arg: input complete and block
    /// quiescent (exact count expected) vs prefix only.
    pub reference: Option<RefCheck>,
    /// Expected output tags per output port (C12), for outputs produced so far.
    pub tag_expect: Option<TagExpect>,
    /// Smallest stream capacity (in items of the smallest port) this parameter
    /// set needs to make progress.
    pub needs_items: usize,
    /// Source that never ends (no EOF expected).
    pub infinite: bool,
    /// Output is not a function of the input alone by design (never set for
    /// library blocks in the C08 anchor list).
    pub skip_compare: bool,
    /// Block's error return is an accepted outcome (hostile-input cases).
    pub err_ok: bool,
    /// The block delivers (part of) its result when it is dropped: drop it at
    /// the end of a run and collect the outputs once more before comparing.
    pub finish_by_drop: bool,
}

impl Case {
    pub fn new(kind: &'static str, params: String, block: Box<dyn Block + Send>) -> Self {
        Self {
            kind,
            params,
            block: Some(block),
            ins: vec![],
            outs: vec![],
            reference: None,
            tag_expect: None,
            needs_items: 1,
            infinite: false,
            skip_compare: false,
            err_ok: false,
            finish_by_drop: false,
        }
    }
    /// See `finish_by_drop`.
    pub fn finish(&mut self) {
        if self.finish_by_drop {
            drop(self.block.take());
            for o in self.outs.iter_mut() {
                o.drain(usize::MAX);
            }
        }
    }
    pub fn out_typed<T: Bits>(&self, i: usize) -> &StreamOut<T> {
        self.outs[i].as_any().downcast_ref::<StreamOut<T>>().expect("out port type")
    }
    pub fn out_nc<P: Send + 'static>(&self, i: usize) -> &NcOut<P> {
        self.outs[i].as_any().downcast_ref::<NcOut<P>>().expect("nc out port type")
    }
    pub fn in_typed<T: Bits>(&self, i: usize) -> &StreamIn<T> {
        self.ins[i].as_any().downcast_ref::<StreamIn<T>>().expect("in port type")
    }
    pub fn in_nc<P: Send + Clone + 'static>(&self, i: usize) -> &NcIn<P> {
        self.ins[i].as_any().downcast_ref::<NcIn<P>>().expect("nc in port type")
    }
}

#[derive(Debug, Clone, PartialEq)]
pub enum Verdict {
    Again,
    Pending,
    WaitFunc,
    WaitStream { id: usize, need: usize, closed: bool, wait: Option<bool> },
    Eof,
    Err(String),
    Panic(Panicked2),
}

#[derive(Debug, Clone, PartialEq)]
pub struct Panicked2 {
    pub msg: String,
    pub loc: String,
    pub site: String,
}

pub struct Step {
    pub verdict: Verdict,
    pub consumed: Vec<usize>,
    pub produced: Vec<usize>,
    pub activity: bool,
    pub block_eof: Option<bool>,
    pub live_windows_after: usize,
}

/// One `work()` call with before/after accounting.
/// `probe`: also evaluate `wait(need)` (virtual time) and `block.eof()`.
pub fn step(case: &mut Case, solo: &Solo, probe: bool) -> Step {
    let before_in: Vec<usize> = case.ins.iter().map(|p| p.backlog()).collect();
    let before_out: Vec<usize> = case.outs.iter().map(|p| p.available()).collect();
    let mut block = case.block.take().expect("block present");
    let r = catch(|| {
        let v = match block.work() {
            Ok(BlockRet::Again) => Verdict::Again,
            Ok(BlockRet::Pending) => Verdict::Pending,
            Ok(BlockRet::WaitForFunc(f)) => {
                if probe {
                    f();
                }
                Verdict::WaitFunc
            }
            Ok(BlockRet::WaitForStream(s, need)) => Verdict::WaitStream {
                id: s.verif_id(),
                need,
                closed: s.closed(),
                wait: if probe { Some(s.wait(need)) } else { None },
            },
            Ok(BlockRet::EOF) => Verdict::Eof,
            Err(e) => Verdict::Err(e.to_string()),
        };
        v
    });
    let verdict = match r {
        Ok(v) => v,
        Err(p) => Verdict::Panic(Panicked2 {
            site: p.site(),
            msg: p.msg,
            loc: p.loc,
        }),
    };
    let live_windows_after = solo.state().windows.live.len();
    let block_eof = if probe && !matches!(verdict, Verdict::Panic(_)) {
        catch(|| block.eof()).ok()
    } else {
        None
    };
    case.block = Some(block);
    // After a panic inside a stream operation its state mutex is poisoned:
    // the accounting calls below would panic too.
    let panicked = matches!(verdict, Verdict::Panic(_));
    let after_in: Vec<usize> = if panicked { before_in.clone() } else { case.ins.iter().map(|p| p.backlog()).collect() };
    let after_out: Vec<usize> = if panicked { before_out.clone() } else { case.outs.iter().map(|p| p.available()).collect() };
    let consumed: Vec<usize> = before_in.iter().zip(&after_in).map(|(b, a)| b.saturating_sub(*a)).collect();
    let produced: Vec<usize> = before_out.iter().zip(&after_out).map(|(b, a)| a.saturating_sub(*b)).collect();
    let activity = consumed.iter().any(|&c| c > 0) || produced.iter().any(|&p| p > 0);
    Step {
        verdict,
        consumed,
        produced,
        activity,
        block_eof,
        live_windows_after,
    }
}

/// Findings of a rig run, tagged with the property they belong to.
#[derive(Debug, Clone)]
pub struct Finding {
    pub prop: &'static str,
    pub key: String,
    pub msg: String,
}

pub struct RigOpts {
    /// Drop the peer ends at the end and check retirement (C09).
    pub check_retire: bool,
    /// Verdict probing (satisfy-the-wait experiments).
    pub probe_waits: bool,
    pub max_actions: usize,
}

#[derive(Default)]
pub struct RigStats {
    pub work_calls: u64,
    pub wait_after_activity: u64,
    pub eof_after_activity: u64,
}

fn fkey(prop: &'static str, kind: &str, what: &str) -> String {
    format!("{prop}:{kind}:{what}")
}

/// Everything fed and nothing more can happen? Used to end both runs.
fn all_fed(case: &Case) -> bool {
    case.ins.iter().all(|p| p.fed() == p.total())
}

/// Run A: one-shot delivery with ample space. Returns findings (panic/err).
pub fn run_oneshot(case: &mut Case, solo: &Solo, ctx: &mut RunCtx, findings: &mut Vec<Finding>) -> bool {
    let mut idle = 0;
    let mut guard = 0;
    loop {
        guard += 1;
        if guard > 200_000 {
            findings.push(Finding {
                prop: "C09",
                key: fkey("C09", case.kind, "oneshot-no-quiescence"),
                msg: format!("{} {}: one-shot run did not reach quiescence in 200000 calls", case.kind, case.params),
            });
            return false;
        }
        for p in case.ins.iter_mut() {
            let k = p.total() - p.fed();
            p.feed(k);
        }
        let st = step(case, solo, false);
        for o in case.outs.iter_mut() {
            o.drain(usize::MAX);
        }
        ctx.steps += 1;
        match &st.verdict {
            Verdict::Panic(p) => {
                findings.push(Finding {
                    prop: "C08",
                    key: fkey("C08", case.kind, &format!("panic-oneshot:{}", p.site)),
                    msg: format!("{} {}: work() panicked in the one-shot run: {} at {}", case.kind, case.params, p.msg, p.loc),
                });
                return false;
            }
            Verdict::Err(e) => {
                if !case.err_ok {
                    findings.push(Finding {
                        prop: "C08",
                        key: fkey("C08", case.kind, "err-oneshot"),
                        msg: format!("{} {}: work() failed in the one-shot run: {e}", case.kind, case.params),
                    });
                }
                return false;
            }
            Verdict::Eof => return true,
            _ => {}
        }
        if st.activity {
            idle = 0;
        } else {
            idle += 1;
        }
        let done_feeding = all_fed(case);
        if case.infinite {
            // Infinite source: stop once enough was collected.
            if case.outs.iter().all(|o| o.collected() >= case.needs_items.max(1) * 4) || guard > 64 {
                return false;
            }
        } else if done_feeding && idle >= 3 {
            return true;
        } else if !done_feeding && idle >= 50 {
            // Stuck although input remains: reported by the chunked run's
            // verdict checks; here just stop.
            return false;
        }
    }
}

/// Run B: seeded drip-feed with invariant checks. `oracle_out[j]` is run A's
/// byte output for port j (None: no comparison).
#[allow(clippy::too_many_arguments)]
pub fn run_drip(
    case: &mut Case,
    solo: &Solo,
    src: &mut Src,
    ctx: &mut RunCtx,
    opts: &RigOpts,
    oracle_out: Option<&[Vec<u8>]>,
    findings: &mut Vec<Finding>,
    stats: &mut RigStats,
) -> bool {
    let kind = case.kind;
    let mut complete = false;
    let nin = case.ins.len();
    let nout = case.outs.len();
    // Per-run drip personality.
    let feed_style = src.below(4); // 0 tiny, 1 small, 2 mixed, 3 large
    let drain_style = src.below(4);
    let hold_full = src.chance(1, 3); // keep outputs full for stretches
    // With several outputs, one of them often has a slow reader: it is only
    // drained when the block is stuck, so the outputs offer unequal room.
    let starved: Option<usize> = if nout >= 2 && src.coin() { Some(src.below(nout)) } else { None };
    let mut hold_left = 0usize;
    let mut idle_again = 0usize;
    let mut stalled = 0usize;
    let mut actions = 0usize;
    let mut ended = false;
    let mut infinite_target = 0usize;
    if case.infinite {
        infinite_target = case.outs.iter().map(|o| o.capacity().min(1 << 20)).max().unwrap_or(0) * 2 + src.below(64);
    }

    macro_rules! find {
        ($prop:expr, $what:expr, $($arg:tt)*) => {{
            findings.push(Finding { prop: $prop, key: fkey($prop, kind, $what), msg: format!("{} {}: {}", kind, case.params, format!($($arg)*)) });
        }};
    }

    let amount = |src: &mut Src, style: usize, max: usize| -> usize {
        if max == 0 {
            return 0;
        }
        let v = match style {
            0 => src.range(1, 3),
            1 => src.range(1, 17),
            2 => match src.below(5) {
                0 => 1,
                1 => src.range(1, 3),
                2 => src.range(1, 64),
                3 => max,
                _ => src.range(1, max),
            },
            _ => {
                if src.chance(1, 4) {
                    src.range(1, max)
                } else {
                    max
                }
            }
        };
        v.min(max)
    };

    loop {
        actions += 1;
        if actions > opts.max_actions {
            ctx.count("rig_action_budget_reached");
            break;
        }
        // Choose an action. Work is most frequent.
        let can_feed: Vec<usize> = (0..nin)
            .filter(|&i| case.ins[i].fed() < case.ins[i].total() && case.ins[i].space() > 0)
            .collect();
        let can_drain: Vec<usize> = (0..nout).filter(|&j| case.outs[j].available() > 0).collect();
        let mut w = [50u32, 0, 0];
        if !can_feed.is_empty() {
            w[1] = 30;
        }
        if !can_drain.is_empty() {
            w[2] = if hold_left > 0 { 2 } else { 30 };
        }
        // When the block is stalled, force environment progress.
        if stalled >= 2 {
            w[0] = 5;
            if w[2] > 0 {
                w[2] = 60;
            }
        }
        // After a long stall the environment acts without a draw, so that an
        // all-zero (minimised) decision list still delivers the input.
        let forced = if stalled >= 8 && !can_feed.is_empty() {
            Some(1)
        } else if stalled >= 8 && !can_drain.is_empty() {
            Some(2)
        } else {
            None
        };
        match forced.unwrap_or_else(|| src.weighted(&w)) {
            1 => {
                let i = *src.pick(&can_feed);
                let max = case.ins[i].space().min(case.ins[i].total() - case.ins[i].fed());
                let k = amount(src, feed_style, max);
                let n = case.ins[i].feed(k);
                ctx.ev(|| format!("feed in{i} {n}"));
                ctx.count("fault:drip_feed");
                stalled = 0;
                idle_again = 0;
                continue;
            }
            2 => {
                let pool: Vec<usize> = match starved {
                    Some(sj) if stalled < 2 && can_drain.iter().any(|&j| j != sj) => can_drain.iter().copied().filter(|&j| j != sj).collect(),
                    _ => can_drain.clone(),
                };
                let j = *src.pick(&pool);
                let max = case.outs[j].available();
                let m = amount(src, drain_style, max);
                let n = case.outs[j].drain(m);
                ctx.ev(|| format!("drain out{j} {n}"));
                stalled = 0;
                idle_again = 0;
                if hold_left > 0 {
                    hold_left -= 1;
                }
                continue;
            }
            _ => {}
        }
        // Work.
        let in_backlog: Vec<usize> = case.ins.iter().map(|p| p.backlog()).collect();
        let out_free: Vec<usize> = case
            .outs
            .iter()
            .map(|p| if p.is_nc() { usize::MAX / 2 } else { p.capacity() - p.available() })
            .collect();
        let both_short = in_backlog.iter().any(|&b| b == 0) && out_free.iter().any(|&f| f == 0);
        if both_short {
            ctx.count("both_short");
        }
        if out_free.iter().any(|&f| f == 0) {
            ctx.count("fault:output_full");
            if PER_ADAPTER.with(|p| *p) {
                ctx.count(&format!("zz_full:{kind}"));
            }
            if hold_full && hold_left == 0 && src.chance(1, 2) {
                hold_left = src.range(1, 6);
            }
        }
        if (0..nin).any(|i| !case.ins[i].is_nc() && in_backlog[i] > 0 && (0..nout).any(|j| !case.outs[j].is_nc() && out_free[j] > 0 && in_backlog[i] > out_free[j])) {
            ctx.count("input_larger_than_output_space");
        }
        let st = step(case, solo, false);
        stats.work_calls += 1;
        ctx.steps += 1;
        ctx.ev(|| format!("work in_backlog={in_backlog:?} out_free={:?} -> {:?} consumed={:?} produced={:?}", out_free.iter().map(|&f| f.min(99_999_999)).collect::<Vec<_>>(), st.verdict, st.consumed, st.produced));
        ctx.cell(&[
            kind.len() as u64 ^ (kind.as_bytes()[0] as u64) << 8,
            match st.verdict { Verdict::Again => 0, Verdict::Pending => 1, Verdict::WaitFunc => 2, Verdict::WaitStream { .. } => 3, Verdict::Eof => 4, _ => 5 },
            in_backlog.iter().map(|&b| (b > 0) as u64 + (b > 16) as u64).sum::<u64>(),
            out_free.iter().map(|&f| (f > 0) as u64 + (f > 16) as u64).sum::<u64>(),
            st.activity as u64,
        ]);
        // --- C09 (2): no window may outlive the call.
        if st.live_windows_after != 0 {
            find!("C09", "window-leak", "{} stream windows still live after work() returned", st.live_windows_after);
        }
        for (i, p) in case.ins.iter().enumerate() {
            if p.is_open() && p.refcount() != 2 {
                find!("C09", "handle-leak", "input {i} has {} handles after work() returned (expected 2)", p.refcount());
            }
        }
        for (j, p) in case.outs.iter().enumerate() {
            if p.is_open() && p.refcount() != 2 {
                find!("C09", "handle-leak", "output {j} has {} handles after work() returned (expected 2)", p.refcount());
            }
        }
        match &st.verdict {
            Verdict::Panic(p) => {
                find!("C08", &format!("panic:{}", p.site), "work() panicked with input backlog {in_backlog:?} and output free {:?}: {} at {}", out_free.iter().map(|&f| f.min(99_999_999)).collect::<Vec<_>>(), p.msg, p.loc);
                return false;
            }
            Verdict::Err(e) => {
                if !case.err_ok {
                    find!("C08", "err", "work() returned an error under chunked delivery: {e}");
                }
                return false;
            }
            Verdict::Eof => {
                if st.activity {
                    stats.eof_after_activity += 1;
                }
                ended = true;
                complete = all_fed(case);
                // Sources: collect the rest and stop.
                for o in case.outs.iter_mut() {
                    o.drain(usize::MAX);
                }
                if !all_fed(case) && nin > 0 {
                    find!("C09", "premature-eof", "EOF returned while the input is still open and unfed data remains");
                }
                break;
            }
            Verdict::Again => {
                if st.activity {
                    idle_again = 0;
                    stalled = 0;
                } else {
                    idle_again += 1;
                    stalled += 1;
                    ctx.count("idle_again_seen");
                    // Spin probe: nothing changes in the environment; a block
                    // may take one state-only step, but must not keep
                    // answering Again without moving anything.
                    if idle_again == 1 {
                        for _ in 0..5 {
                            let st2 = step(case, solo, false);
                            stats.work_calls += 1;
                            if let Verdict::Panic(p) = &st2.verdict {
                                find!("C08", &format!("panic:{}", p.site), "work() panicked: {} at {}", p.msg, p.loc);
                                return false;
                            }
                            if st2.activity || st2.verdict != Verdict::Again {
                                idle_again = 0;
                                break;
                            }
                            idle_again += 1;
                        }
                        ctx.count("idle_again_spin_probe");
                    }
                    if idle_again > 4 {
                        find!("C09", "idle-again", "{} consecutive 'Again' verdicts with no stream activity (input backlog {in_backlog:?}, output free {:?})", idle_again, out_free.iter().map(|&f| f.min(99_999_999)).collect::<Vec<_>>());
                        // Treat as a wait on anything so the run can go on.
                        idle_again = 0;
                        stalled = 3;
                    }
                }
            }
            Verdict::Pending | Verdict::WaitFunc => {
                if st.activity {
                    stalled = 0;
                } else {
                    stalled += 1;
                }
                idle_again = 0;
            }
            Verdict::WaitStream { id, need, .. } => {
                idle_again = 0;
                if st.activity {
                    stats.wait_after_activity += 1;
                    stalled = 0;
                    // A wait verdict from a call that moved data still binds the
                    // threaded runner (it waits for `need`, and takes "writer
                    // gone and fewer than `need` left" for the end). Which
                    // stream it names is a hint then, but the amount must not be
                    // overstated: one sample short, nothing may be delivered.
                    if let Some(i) = case.ins.iter().position(|p| p.id() == *id) {
                        let avail = case.ins[i].backlog();
                        if *need > avail && opts.probe_waits && !case.ins[i].is_nc() && case.ins[i].capacity() >= *need && src.chance(1, 6) {
                            let lack = *need - avail;
                            let left = case.ins[i].total() - case.ins[i].fed();
                            if lack >= 2 && left >= lack && case.ins[i].space() >= lack {
                                case.ins[i].feed(lack - 1);
                                ctx.count("wait_probe_in_one_short");
                                let st1 = step(case, solo, false);
                                stats.work_calls += 1;
                                ctx.ev(|| format!("probe (after activity): fed {} (one short of {need}) to in{i} -> {:?} consumed={:?} produced={:?}", lack - 1, st1.verdict, st1.consumed, st1.produced));
                                if let Verdict::Panic(p) = &st1.verdict {
                                    find!("C08", &format!("panic:{}", p.site), "work() panicked: {} at {}", p.msg, p.loc);
                                    return false;
                                }
                                let delivered = st1.produced.iter().any(|&x| x > 0) || (nout == 0 && st1.consumed.iter().any(|&x| x > 0));
                                if delivered {
                                    find!("C09", "overstated-wait-in", "asked for {need} on input {i} (had {avail}), yet with {} it went ahead: consumed {:?} produced {:?}; a runner would have dropped that tail at the end of the stream", *need - 1, st1.consumed, st1.produced);
                                }
                                if matches!(st1.verdict, Verdict::Eof | Verdict::Err(_)) {
                                    ended = true;
                                    break;
                                }
                            }
                        }
                    }
                } else {
                    stalled += 1;
                    ctx.count("wait_verdict_without_activity");
                    // --- C09 (3): the wait must name an unsatisfied stream.
                    if let Some(i) = case.ins.iter().position(|p| p.id() == *id) {
                        let avail = case.ins[i].backlog();
                        if avail >= *need {
                            find!("C09", "misdirected-wait-in", "no activity, yet waits for {need} on input {i} which already holds {avail}");
                        } else if !case.ins[i].is_nc() && avail == case.ins[i].capacity() && *need > avail {
                            // Full stream, nothing taken from it, more asked for
                            // than it can ever hold: stuck for good.
                            find!("C09", "wait-exceeds-capacity", "no activity, input {i} is full ({avail} of {avail}), yet the block waits for {need} on it: that can never be satisfied");
                            return false;
                        } else if opts.probe_waits && case.ins[i].capacity() >= *need && src.chance(1, 4) {
                            let lack = *need - avail;
                            let left = case.ins[i].total() - case.ins[i].fed();
                            // --- C09 (3b): the amount must not be overstated
                            // either. A runner takes "fewer than `need` left and
                            // the writer gone" for the end of the stream, so a
                            // block that asks for more than it can use loses its
                            // tail. One sample short of the request, the block
                            // must not be able to deliver (a sink: to take in).
                            if lack >= 2 && left >= lack && case.ins[i].space() >= lack && !case.ins[i].is_nc() && src.coin() {
                                case.ins[i].feed(lack - 1);
                                ctx.count("wait_probe_in_one_short");
                                let st1 = step(case, solo, false);
                                stats.work_calls += 1;
                                ctx.ev(|| format!("probe: fed {} (one short of {need}) to in{i} -> {:?} consumed={:?} produced={:?}", lack - 1, st1.verdict, st1.consumed, st1.produced));
                                if let Verdict::Panic(p) = &st1.verdict {
                                    find!("C08", &format!("panic:{}", p.site), "work() panicked: {} at {}", p.msg, p.loc);
                                    return false;
                                }
                                let delivered = st1.produced.iter().any(|&x| x > 0) || (nout == 0 && st1.consumed.iter().any(|&x| x > 0));
                                if delivered {
                                    find!("C09", "overstated-wait-in", "asked for {need} on input {i} (had {avail}), yet with {} it went ahead: consumed {:?} produced {:?}; a runner would have dropped that tail at the end of the stream", *need - 1, st1.consumed, st1.produced);
                                }
                                if matches!(st1.verdict, Verdict::Eof | Verdict::Err(_)) {
                                    ended = true;
                                    break;
                                }
                                stalled = 0;
                                continue;
                            }
                            if left >= lack && case.ins[i].space() >= lack {
                                // Satisfy exactly that, on that stream alone.
                                case.ins[i].feed(lack);
                                ctx.count("wait_probe_in");
                                let st2 = step(case, solo, false);
                                stats.work_calls += 1;
                                ctx.ev(|| format!("probe: fed {lack} to in{i} -> {:?} consumed={:?} produced={:?}", st2.verdict, st2.consumed, st2.produced));
                                if !probe_ok(case, &st2, *id) {
                                    find!("C09", "wait-not-honoured-in", "asked for {need} on input {i}; after exactly that was provided the next call made no progress and named no other unsatisfied stream: {:?}", st2.verdict);
                                }
                                if let Verdict::Panic(p) = &st2.verdict {
                                    find!("C08", &format!("panic:{}", p.site), "work() panicked: {} at {}", p.msg, p.loc);
                                    return false;
                                }
                                if matches!(st2.verdict, Verdict::Eof | Verdict::Err(_)) {
                                    ended = true;
                                    break;
                                }
                            }
                        }
                    } else if let Some(j) = case.outs.iter().position(|p| p.id() == *id) {
                        if case.outs[j].is_nc() {
                            find!("C09", "misdirected-wait-out", "waits on a packet output, which never blocks");
                        } else {
                            let free = case.outs[j].capacity() - case.outs[j].available();
                            if free >= *need {
                                find!("C09", "misdirected-wait-out", "no activity, yet waits for {need} free on output {j} which already has {free}");
                            } else if opts.probe_waits && case.outs[j].capacity() >= *need && src.chance(1, 4) {
                                let lack = *need - free;
                                case.outs[j].drain(lack);
                                ctx.count("wait_probe_out");
                                let st2 = step(case, solo, false);
                                stats.work_calls += 1;
                                ctx.ev(|| format!("probe: drained {lack} from out{j} -> {:?} consumed={:?} produced={:?}", st2.verdict, st2.consumed, st2.produced));
                                if !probe_ok(case, &st2, *id) {
                                    find!("C09", "wait-not-honoured-out", "asked for {need} free on output {j}; after exactly that was freed the next call made no progress and named no other unsatisfied stream: {:?}", st2.verdict);
                                }
                                if let Verdict::Panic(p) = &st2.verdict {
                                    find!("C08", &format!("panic:{}", p.site), "work() panicked: {} at {}", p.msg, p.loc);
                                    return false;
                                }
                                if matches!(st2.verdict, Verdict::Eof | Verdict::Err(_)) {
                                    ended = true;
                                    break;
                                }
                            }
                        }
                    }
                    // Unknown id: an internal stream; nothing to check.
                }
            }
        }
        // Incremental prefix check (cheap: lengths only here; bytes at the end).
        if let Some(or) = oracle_out {
            for j in 0..nout {
                let b = case.outs[j].bytes();
                if b.len() > or[j].len() && !case.skip_compare {
                    // More output than the one-shot run: compared at the end.
                }
            }
        }
        // End condition.
        if case.infinite {
            if case.outs.iter().map(|o| o.collected()).min().unwrap_or(0) >= infinite_target {
                break;
            }
            continue;
        }
        if all_fed(case) && stalled >= 3 && can_drain.is_empty() && case.outs.iter().all(|o| o.available() == 0) {
            complete = true;
            break;
        }
        if stalled >= 40 {
            // Everything the environment can offer was offered.
            let env_can_help = !can_feed.is_empty() || !can_drain.is_empty();
            if !env_can_help {
                break;
            }
        }
    }
    // Final drain.
    for o in case.outs.iter_mut() {
        o.drain(usize::MAX);
    }
    if ended || !opts.check_retire || case.infinite {
        return complete;
    }
    // --- C09 (5): retirement once inputs are closed and drained.
    if nin == 0 {
        return complete;
    }
    // Let the block drain whatever is left, with ample output space (a block
    // may take one sample per call: the bound follows the backlog).
    let backlog_total: usize = case.ins.iter().map(|p| p.backlog()).sum();
    let drain_calls = 1000 + 2 * backlog_total;
    let mut guard = 0;
    loop {
        guard += 1;
        let st = step(case, solo, false);
        stats.work_calls += 1;
        for o in case.outs.iter_mut() {
            o.drain(usize::MAX);
        }
        if matches!(st.verdict, Verdict::Panic(_) | Verdict::Err(_) | Verdict::Eof) || !st.activity || guard > drain_calls {
            break;
        }
    }
    for p in case.ins.iter_mut() {
        p.close();
    }
    ctx.count("fault:peer_drop");
    let mut retired = false;
    let mut last = String::new();
    let mut idle_calls = 0;
    let mut calls = 0;
    // Four calls that move nothing; calls that still move data do not count.
    while idle_calls < 4 && calls < drain_calls {
        calls += 1;
        let st = step(case, solo, true);
        stats.work_calls += 1;
        for o in case.outs.iter_mut() {
            o.drain(usize::MAX);
        }
        if !st.activity {
            idle_calls += 1;
        }
        last = format!("{:?} eof()={:?}", st.verdict, st.block_eof);
        ctx.ev(|| format!("after close: {last}"));
        match &st.verdict {
            Verdict::Eof => retired = true,
            Verdict::WaitStream { wait, closed, .. } => {
                if *wait == Some(true) || st.block_eof == Some(true) || *closed {
                    retired = true;
                }
            }
            Verdict::WaitFunc => {
                if st.block_eof == Some(true) {
                    retired = true;
                }
            }
            Verdict::Panic(p) => {
                find!("C08", &format!("panic-after-close:{}", p.site), "work() panicked after its inputs ended: {} at {}", p.msg, p.loc);
                return false;
            }
            Verdict::Err(_) => {
                retired = true;
            }
            _ => {}
        }
        if retired {
            break;
        }
    }
    if !retired {
        find!("C09", "not-retired", "inputs closed and drained, but 4 further calls that moved nothing gave no EOF, no true wait on an ended input and eof()==false (last: {last})");
    } else {
        ctx.count("retired_after_close");
    }
    complete
}

fn probe_ok(case: &Case, st2: &Step, waited_id: usize) -> bool {
    if st2.activity {
        return true;
    }
    match &st2.verdict {
        Verdict::Eof | Verdict::Err(_) | Verdict::Panic(_) => true,
        Verdict::WaitStream { id, need, .. } => {
            if *id == waited_id {
                // Same stream again: only fine if it asks for more than before
                // and that is still unsatisfied.
                if let Some(i) = case.ins.iter().position(|p| p.id() == *id) {
                    return case.ins[i].backlog() < *need;
                }
                if let Some(j) = case.outs.iter().position(|p| p.id() == *id) {
                    return case.outs[j].capacity() - case.outs[j].available() < *need;
                }
                true
            } else {
                if let Some(i) = case.ins.iter().position(|p| p.id() == *id) {
                    return case.ins[i].backlog() < *need;
                }
                if let Some(j) = case.outs.iter().position(|p| p.id() == *id) {
                    return case.outs[j].is_nc() || case.outs[j].capacity() - case.outs[j].available() < *need;
                }
                true
            }
        }
        // A state-only transition is allowed once (idle-Again accounting
        // catches repeats); Pending/WaitForFunc are accepted as documented.
        Verdict::Again | Verdict::Pending | Verdict::WaitFunc => true,
    }
}

/// Compare two byte outputs: equal if `complete`, else `b` prefix of `a`.
pub fn compare_bytes(a: &[u8], b: &[u8]) -> Result<(), (usize, &'static str)> {
    let n = a.len().min(b.len());
    if let Some(i) = (0..n).find(|&i| a[i] != b[i]) {
        return Err((i, "differs"));
    }
    if a.len() != b.len() {
        return Err((n, if b.len() < a.len() { "chunked run emitted less" } else { "chunked run emitted more" }));
    }
    Ok(())
}

pub fn tags_to_multiset(t: &[TagRec]) -> Vec<(u64, String, String)> {
    let mut v: Vec<(u64, String, String)> = t.iter().map(|(p, k, v)| (*p, k.clone(), tagval_bits(v))).collect();
    v.sort();
    v
}
