//! Checks built on the rig: C08 (chunking independence), C09 (truthful
//! verdicts), C10/C11 (reference models), C12 (tag propagation).

use std::sync::OnceLock;

use serde_json::{Value, json};

use crate::blocks::{Adapter, Env, registry};
use crate::engine::{Budget, Check, RunCtx, RunResult, Tier, Violation};
use crate::rig::*;
use crate::rt::Solo;
use crate::src::Src;

pub fn adapters() -> &'static Vec<Adapter> {
    static R: OnceLock<Vec<Adapter>> = OnceLock::new();
    R.get_or_init(registry)
}

pub struct RigCheck {
    pub prop: &'static str,
}

const BIG_BYTES: usize = 64 * 4096;

impl RigCheck {
    fn eligible(&self) -> Vec<usize> {
        adapters()
            .iter()
            .enumerate()
            .filter(|(_, a)| match self.prop {
                "C10" => a.c10,
                "C11" => a.c11,
                "C12" => a.c12,
                _ => true,
            })
            .map(|(i, _)| i)
            .collect()
    }
}

fn build_with(a: &Adapter, src: &mut Src, env: &Env, bytes: usize) -> Case {
    rustradio::verif::set_stream_size(bytes);
    let c = (a.build)(src, env);
    rustradio::verif::set_stream_size(0);
    c
}

pub fn first_diff(a: &[u8], b: &[u8]) -> Option<usize> {
    let n = a.len().min(b.len());
    (0..n).find(|&i| a[i] != b[i]).or(if a.len() != b.len() { Some(n) } else { None })
}

impl Check for RigCheck {
    fn id(&self) -> &'static str {
        self.prop
    }
    fn rule(&self) -> String {
        let what = match self.prop {
            "C08" => "the chunked run's output (bytes of every output port, packet boundaries included) must equal the one-shot run's; no panic or error in either",
            "C09" => "every work() call is checked: no live window or extra handle afterwards, a wait verdict without activity must name an unsatisfied stream and be honoured when exactly that is provided, at most 4 idle 'Again' in a row, and after the inputs are closed and drained the block must retire within 4 calls",
            "C10" => "both runs' outputs are compared with an independent executable specification (exact values and counts)",
            "C11" => "both runs' outputs are compared with f64 reference arithmetic within a rounding bound",
            _ => "output tags collected at consume time (absolute indices) must equal the mapped input tags as a multiset",
        };
        format!(
            "one run = one block type (every registered type is enumerated once, then drawn), seeded parameters and input, \
             executed twice on real streams: (A) one-shot delivery with ample space, (B) a seeded drip-feed schedule \
             (feed 1..k samples, drain 0..j output slots between work() calls, outputs held full for stretches, streams of 1-3 pages pre-rolled to seeded wrap offsets). \
             {what}. non-trivial = the chunked run made at least one work() call that moved data; distinct = hash of the full decision list"
        )
    }
    fn assumptions(&self) -> Vec<String> {
        vec![
            "constructor preconditions are respected by the generators (sps > 1, odd Hilbert length, stream at least one FFT block, bit inputs in {0,1})".into(),
            "single-threaded environment: the harness is the only peer of the block".into(),
            "C10/C11: the input dimension is plain seeded generation; only the delivery schedule is simulation".into(),
        ]
    }
    fn real_vs_stub(&self) -> Value {
        json!({"real": ["every block's work()/eof()", "derive-macro expansion", "mmap-backed streams and packet queues", "rustfft", "rayon"], "simulated": ["upstream and downstream peers (the harness)", "waits and sleeps (virtual time, Solo runtime)"], "stub": []})
    }
    fn budget(&self, tier: Tier) -> Budget {
        match tier {
            Tier::Quick => Budget { runs: 10000, max_secs: 40.0 },
            Tier::Thorough => Budget { runs: 3_000_000, max_secs: 900.0 },
        }
    }
    fn fixed_cases(&self) -> u64 {
        adapters().len() as u64
    }
    fn required(&self, _tier: Tier) -> Vec<&'static str> {
        match self.prop {
            "C08" => vec!["fault:output_full", "input_larger_than_output_space", "fault:drip_feed", "wrap_in_stream"],
            "C09" => vec!["both_short", "wait_probe_in", "wait_probe_out", "retired_after_close", "fault:peer_drop"],
            "C12" => vec!["tags_checked", "tag_beyond_processed_part"],
            _ => vec!["reference_checked_chunked"],
        }
    }

    fn run(&self, src: &mut Src, ctx: &mut RunCtx) -> RunResult {
        let reg = adapters();
        let avx_flavour = std::env::var("VSIM_FLAVOUR").as_deref() == Ok("avx");
        let elig: Vec<usize> = if avx_flavour && self.prop == "C11" {
            // Only Hilbert goes through Fir::filter_float (the SIMD kernels).
            self.eligible().into_iter().filter(|&i| reg[i].name == "Hilbert").collect()
        } else {
            self.eligible()
        };
        // The first draw is the enumerated-case selector (forced by the engine).
        let which = src.draw(reg.len() as u64 + 1) as usize;
        if self.prop == "C11" && which >= reg.len() && (src.chance(1, 6) || (avx_flavour && src.coin())) {
            return kernel_case(src, ctx);
        }
        if cfg!(target_feature = "avx") {
            ctx.count("avx_kernel_build");
        }
        let ai = if which < reg.len() && elig.contains(&which) {
            which
        } else {
            elig[src.below(elig.len())]
        };
        // Debugging aid: restrict the batch to one adapter (not used by any registered command).
        let ai = match std::env::var("VERIF_ADAPTER") {
            Ok(n) => reg.iter().position(|a| a.name == n).unwrap_or(ai),
            Err(_) => ai,
        };
        let a = &reg[ai];
        let small_bytes = *src.pick(&[4096usize, 4096, 8192, 12288]);
        let env = Env { small_bytes };
        let solo = Solo::new();
        let focus = self.prop;
        let mut findings: Vec<Finding> = Vec::new();
        let mut stats = RigStats::default();
        let spec_prop: &'static str = if a.c11 { "C11" } else { "C10" };

        solo.with(|| {
            // Build B from the live source, then A from the same draws.
            let start = src.log.len();
            let mut cb = build_with(a, src, &env, small_bytes);
            let build_draws: Vec<u64> = src.log[start..].to_vec();
            let mut sa = Src::from_choices(build_draws);
            let mut ca = build_with(a, &mut sa, &env, BIG_BYTES);
            ctx.ev(|| format!("block {} [{}] stream {} bytes", cb.kind, cb.params, small_bytes));
            if ctx.sample.is_none() {
                ctx.sample = Some(json!({"block": cb.kind, "params": cb.params, "stream_bytes": small_bytes, "inputs": cb.ins.iter().map(|p| p.total()).collect::<Vec<_>>()}));
            }
            // Seeded wrap offsets for the chunked run.
            for p in cb.ins.iter() {
                if !p.is_nc() {
                    let cap = p.capacity();
                    let off = match src.below(4) {
                        0 => 0,
                        1 => cap - 1,
                        2 => cap - src.range(1, 64.min(cap)),
                        _ => src.below(cap),
                    };
                    p.preroll(off);
                    if off != 0 {
                        ctx.count("wrap_in_stream");
                    }
                }
            }
            for p in cb.outs.iter() {
                if !p.is_nc() {
                    let cap = p.capacity();
                    let off = match src.below(4) {
                        0 => 0,
                        1 => cap - 1,
                        2 => cap - src.range(1, 64.min(cap)),
                        _ => src.below(cap),
                    };
                    p.preroll(off);
                }
            }
            // A: one-shot.
            let a_complete = run_oneshot(&mut ca, &solo, ctx, &mut findings);
            let a_failed = !findings.is_empty();
            if !a_failed && a_complete {
                // (Input ends still open here; closed in the chunked run.)
                ca.finish();
            }
            if let Some(r) = &ca.reference {
                if !a_failed {
                    ctx.count("reference_checked_oneshot");
                    if let Err(e) = r(&ca, a_complete && !ca.infinite) {
                        findings.push(Finding { prop: spec_prop, key: format!("{spec_prop}:{}:spec-mismatch-oneshot", ca.kind), msg: format!("{} {}: one-shot delivery: {e}", ca.kind, ca.params) });
                    }
                }
            }
            // A block that panics or fails on in-domain input has not computed
            // its function (C10/C11) nor delivered its tags (C12) either.
            if a_failed {
                if let Some(f) = findings.iter().find(|f| f.key.contains(":panic") || f.key.ends_with(":err")).map(|f| f.msg.clone()) {
                    if ca.reference.is_some() {
                        findings.push(Finding { prop: spec_prop, key: format!("{spec_prop}:{}:no-result-oneshot", ca.kind), msg: format!("no result to compare with the specification: {f}") });
                    }
                    if ca.tag_expect.is_some() {
                        findings.push(Finding { prop: "C12", key: format!("C12:{}:no-result-oneshot", ca.kind), msg: format!("no tags to compare: {f}") });
                    }
                }
            }
            if let Some(te) = &ca.tag_expect {
                if !a_failed {
                    let exp = te(&ca);
                    for (j, e) in exp.iter().enumerate() {
                        let got = tags_to_multiset(ca.outs[j].tags());
                        let want = tags_to_multiset(e);
                        if got != want {
                            findings.push(Finding { prop: "C12", key: format!("C12:{}:tags-oneshot", ca.kind), msg: format!("{} {}: one-shot delivery, output {j}: tags {} expected {}", ca.kind, ca.params, tag_diff(&got, &want), want.len()) });
                        }
                    }
                }
            }
            // B: chunked.
            // (long inputs need proportionally more actions to get through)
            let longest = cb.ins.iter().map(|p| p.total()).max().unwrap_or(0);
            let opts = RigOpts { check_retire: true, probe_waits: true, max_actions: 6000 + longest / 8 };
            let oracle: Vec<Vec<u8>> = ca.outs.iter().map(|o| o.bytes().to_vec()).collect();
            let nf = findings.len();
            let b_complete = run_drip(&mut cb, &solo, src, ctx, &opts, Some(&oracle), &mut findings, &mut stats);
            let b_fatal = findings[nf..].iter().any(|f| f.key.contains(":panic") || f.key.ends_with(":err"));
            if std::env::var("VERIF_DEBUG_LONG").is_ok() && longest > 100_000 {
                eprintln!("long case {}: b_complete {b_complete} a_complete {a_complete} A out {} B out {} work_calls {}", cb.kind, ca.outs[0].collected(), cb.outs[0].collected(), stats.work_calls);
            }
            if !b_fatal && b_complete {
                cb.finish();
            }
            if b_fatal {
                if let Some(f) = findings[nf..].iter().find(|f| f.key.contains(":panic") || f.key.ends_with(":err")).map(|f| f.msg.clone()) {
                    if cb.reference.is_some() {
                        findings.push(Finding { prop: spec_prop, key: format!("{spec_prop}:{}:no-result-chunked", cb.kind), msg: format!("no result to compare with the specification: {f}") });
                    }
                    if cb.tag_expect.is_some() {
                        findings.push(Finding { prop: "C12", key: format!("C12:{}:no-result-chunked", cb.kind), msg: format!("no tags to compare: {f}") });
                    }
                }
            }
            if stats.work_calls > 0 {
                ctx.nontrivial = true;
            }
            ctx.add("wait_or_eof_verdict_after_moving_data", stats.wait_after_activity + stats.eof_after_activity);
            // C08: A vs B.
            if !a_failed && !b_fatal && !cb.skip_compare && !cb.infinite {
                for j in 0..cb.outs.len() {
                    let ab = ca.outs[j].bytes();
                    let bb = cb.outs[j].bytes();
                    let d = first_diff(ab, bb);
                    let bad = match d {
                        None => false,
                        Some(i) => {
                            // While input is pending B may be a strict prefix.
                            !( !b_complete && i == bb.len() && bb.len() < ab.len())
                        }
                    };
                    if bad {
                        let i = d.unwrap();
                        let per = if cb.outs[j].is_nc() { 1 } else { (ab.len().max(1)) / ca.outs[j].collected().max(1) }.max(1);
                        let idx = i / per;
                        findings.push(Finding {
                            prop: "C08",
                            key: format!("C08:{}:output-differs", cb.kind),
                            msg: format!(
                                "{} {}: output {j} differs between one-shot and chunked delivery at byte {i} (item ~{idx}): one-shot {} items [{}], chunked {} items [{}]{}",
                                cb.kind, cb.params, ca.outs[j].collected(), ca.outs[j].item_bytes(idx), cb.outs[j].collected(), cb.outs[j].item_bytes(idx),
                                if b_complete { "" } else { " (chunked run incomplete)" }
                            ),
                        });
                    }
                }
                ctx.count("outputs_compared");
            }
            if cb.infinite && !a_failed && !b_fatal {
                // Infinite sources: common prefix must agree.
                for j in 0..cb.outs.len() {
                    let ab = ca.outs[j].bytes();
                    let bb = cb.outs[j].bytes();
                    let n = ab.len().min(bb.len());
                    if ab[..n] != bb[..n] {
                        findings.push(Finding { prop: "C08", key: format!("C08:{}:output-differs", cb.kind), msg: format!("{} {}: infinite source emits different sequences under different downstream schedules", cb.kind, cb.params) });
                    }
                }
            }
            // C10/C11 on B.
            if let Some(r) = &cb.reference {
                if !b_fatal {
                    ctx.count("reference_checked_chunked");
                    if let Err(e) = r(&cb, b_complete && !cb.infinite) {
                        findings.push(Finding { prop: spec_prop, key: format!("{spec_prop}:{}:spec-mismatch-chunked", cb.kind), msg: format!("{} {}: chunked delivery: {e}", cb.kind, cb.params) });
                    }
                }
            }
            // C12 on B.
            if let Some(te) = &cb.tag_expect {
                if !b_fatal {
                    let exp = te(&cb);
                    ctx.count("tags_checked");
                    for (j, e) in exp.iter().enumerate() {
                        let got = tags_to_multiset(cb.outs[j].tags());
                        let want = tags_to_multiset(e);
                        if !want.is_empty() && stats.work_calls > 2 {
                            ctx.count("tag_beyond_processed_part");
                        }
                        if got != want {
                            findings.push(Finding { prop: "C12", key: format!("C12:{}:tags-chunked", cb.kind), msg: format!("{} {}: chunked delivery, output {j}: {} (expected {} tags, got {})", cb.kind, cb.params, tag_diff(&got, &want), want.len(), got.len()) });
                        }
                    }
                }
            }
        });
        ctx.sim_ns += solo.state().clock_ns;
        for v in &src.log {
            ctx.hash.add(*v);
        }
        for f in findings {
            if f.prop == focus {
                ctx.tolerate(Violation::new(f.key, f.msg))?;
            } else {
                ctx.count("finding_of_other_property_ignored");
            }
        }
        Ok(())
    }
}

fn tag_diff(got: &[(u64, String, String)], want: &[(u64, String, String)]) -> String {
    let mut missing = Vec::new();
    let mut extra = Vec::new();
    let mut g = got.to_vec();
    for w in want {
        if let Some(p) = g.iter().position(|x| x == w) {
            g.remove(p);
        } else if missing.len() < 3 {
            missing.push(format!("{}@{}={}", w.1, w.0, w.2));
        }
    }
    for x in g.iter().take(3) {
        extra.push(format!("{}@{}={}", x.1, x.0, x.2));
    }
    format!("missing {missing:?} unexpected {extra:?}")
}

/// Direct comparison of the dot-product kernels (`Fir::filter` generic,
/// `Fir::filter_float` which is the AVX / portable-simd kernel when the build
/// enables one) with f64 arithmetic, and of generated low-pass taps with their
/// defining properties for the symmetric (Hamming) windows.
fn kernel_case(src: &mut Src, ctx: &mut RunCtx) -> RunResult {
    use rustradio::fir::Fir;
    ctx.nontrivial = true;
    ctx.count("kernel_cases");
    if cfg!(target_feature = "avx") {
        ctx.count("avx_kernel_build");
    }
    let nt = match src.below(5) {
        0 => src.range(1, 9),
        1 => *src.pick(&[7usize, 8, 9, 15, 16, 17, 31, 32, 33, 64, 65]),
        _ => src.range(1, 200),
    };
    let taps: Vec<f32> = (0..nt).map(|_| (src.below(4001) as f32 - 2000.0) / 1000.0).collect();
    let extra = src.below(20);
    let input: Vec<f32> = (0..nt + extra).map(|_| (src.below(8001) as f32 - 4000.0) / 1000.0).collect();
    for v in &src.log {
        ctx.hash.add(*v);
    }
    if ctx.sample.is_none() {
        ctx.sample = Some(json!({"kernel": "Fir::filter_float vs Fir::filter vs f64", "ntaps": nt, "avx_build": cfg!(target_feature = "avx")}));
    }
    let r = crate::engine::catch(|| {
        let fir = Fir::new(&taps);
        (fir.filter(&input), fir.filter_float(&input))
    });
    let (g, k) = match r {
        Ok(x) => x,
        Err(p) => return ctx.tolerate(Violation::new(format!("C11:kernel-panic:{}", p.site()), format!("Fir kernels panicked with {nt} taps: {} at {}", p.msg, p.loc))),
    };
    // y = sum_j taps[j] * x[nt-1-j]
    let mut y = 0f64;
    let mut mag = 0f64;
    for j in 0..nt {
        let t = taps[j] as f64 * input[nt - 1 - j] as f64;
        y += t;
        mag += t.abs();
    }
    let b = 64.0 * f32::EPSILON as f64 * mag + 1e-30;
    if (g as f64 - y).abs() > b {
        return ctx.tolerate(Violation::new("C11:kernel-generic", format!("Fir::filter with {nt} taps gives {g}, f64 dot product {y} (bound {b:e})")));
    }
    if (k as f64 - y).abs() > b {
        return ctx.tolerate(Violation::new(
            if cfg!(target_feature = "avx") { "C11:kernel-avx" } else { "C11:kernel-float" },
            format!("Fir::filter_float with {nt} taps gives {k}, f64 dot product {y}, generic kernel {g} (bound {b:e}; avx build: {})", cfg!(target_feature = "avx")),
        ));
    }
    // `filter_n` / `filter_n_inplace` ("call filter() multiple times, across an
    // input range"): one output for every offset i*deci at which all taps still
    // fit, each exactly what `filter` gives there.
    {
        let deci = src.range(1, 8);
        let want_n = (input.len() - nt) / deci + 1;
        let m = src.below(want_n + 1);
        let r = crate::engine::catch(|| {
            let fir = Fir::new(&taps);
            let all = fir.filter_n(&input, deci);
            let mut part = vec![0f32; m];
            fir.filter_n_inplace(&input, deci, &mut part);
            let each: Vec<f32> = (0..want_n).map(|i| fir.filter(&input[i * deci..])).collect();
            (all, part, each)
        });
        let (all, part, each) = match r {
            Ok(x) => x,
            Err(p) => return ctx.tolerate(Violation::new(format!("C11:kernel-panic:{}", p.site()), format!("Fir::filter_n with {nt} taps, {} samples, deci {deci} panicked: {} at {}", input.len(), p.msg, p.loc))),
        };
        ctx.count("filter_n_cases");
        if all.len() != want_n || all.iter().zip(&each).any(|(a, b)| a.to_bits() != b.to_bits()) {
            return ctx.tolerate(Violation::new("C11:filter-n", format!("Fir::filter_n with {nt} taps on {} samples, deci {deci}: {} outputs, {want_n} offsets fit; first difference at {:?}", input.len(), all.len(), all.iter().zip(&each).position(|(a, b)| a.to_bits() != b.to_bits()))));
        }
        if part.iter().zip(&each).any(|(a, b)| a.to_bits() != b.to_bits()) {
            return ctx.tolerate(Violation::new("C11:filter-n-inplace", format!("Fir::filter_n_inplace with {nt} taps on {} samples, deci {deci}, {m} outputs asked: differs from filter() at the same offsets", input.len())));
        }
    }
    // General IIR kernel (no block wraps it; SymbolSync uses the clamped form):
    // y[n] = t0*x[n] + sum_i t[i]*y[n-i], and the clamped variant feeds the
    // *clamped* value back.
    if src.chance(1, 3) {
        use rustradio::iir_filter::{ClampedFilter, Filter, IirFilter};
        let nt = src.range(1, 5);
        let mut t: Vec<f32> = vec![(src.below(41) as f32 - 20.0) / 10.0];
        for _ in 1..nt {
            t.push((src.below(41) as f32 - 20.0) / (20.0 * nt as f32));
        }
        let clamped = src.coin();
        let (mi, mx) = if src.coin() { (-1.0f32, 1.0f32) } else { (-0.25, 2.0) };
        let fill = if src.chance(1, 3) { Some((src.below(41) as f32 - 20.0) / 10.0) } else { None };
        let n = src.range(1, 60);
        let x: Vec<f32> = (0..n)
            .map(|_| match src.below(5) {
                0 => (src.below(401) as f32 - 200.0) / 10.0, // far outside the clamp
                1 => 0.0,
                _ => (src.below(401) as f32 - 200.0) / 100.0,
            })
            .collect();
        let got = crate::engine::catch(|| {
            let mut f = IirFilter::new(&t);
            if let Some(v) = fill {
                f.fill(v);
            }
            x.iter().map(|&v| if clamped { f.filter_clamped(v, mi, mx) } else { f.filter(v) }).collect::<Vec<f32>>()
        });
        let got = match got {
            Ok(g) => g,
            Err(p) => return ctx.tolerate(Violation::new(format!("C11:iir-panic:{}", p.site()), format!("IirFilter with taps {t:?} panicked: {} at {}", p.msg, p.loc))),
        };
        ctx.count(if clamped { "iir_clamped_checked" } else { "iir_checked" });
        let mut hist: Vec<f32> = match fill {
            Some(v) => vec![v; nt - 1],
            None => vec![],
        };
        let mut hit_clamp = false;
        for (k, &v) in x.iter().enumerate() {
            let mut y = t[0] * v;
            for (i, h) in hist.iter().rev().enumerate().take(nt - 1) {
                y += *h * t[i + 1];
            }
            if clamped {
                let c = y.clamp(mi, mx);
                hit_clamp |= c != y;
                y = c;
            }
            hist.push(y);
            if (got[k] - y).abs() > 1e-5 * (1.0 + y.abs()) {
                return ctx.tolerate(Violation::new(
                    if clamped { "C11:iir-clamped-recurrence" } else { "C11:iir-recurrence" },
                    format!("IirFilter taps {t:?} fill {fill:?} clamp {:?}: output {k} is {}, the recurrence gives {y} (input {:?})", if clamped { Some((mi, mx)) } else { None }, got[k], &x[..=k.min(11)]),
                ));
            }
        }
        if hit_clamp && nt > 1 {
            ctx.count("iir_feedback_after_clamp");
        }
    }
    // Hilbert tap design for every window type: zero at even offsets from the
    // centre, and at odd offset i the tap is ±c/i times the window value *at
    // that tap* (one constant c for the whole filter).
    if src.chance(1, 4) {
        use rustradio::window::WindowType;
        let wt = match src.below(4) {
            0 => WindowType::Blackman,
            1 => WindowType::BlackmanHarris,
            2 => WindowType::HammingParm(0.5),
            _ => WindowType::Hamming,
        };
        let n = 2 * src.range(1, 40) + 1;
        let w = wt.make_window(n);
        let t = match crate::engine::catch(|| rustradio::fir::hilbert(&w)) {
            Ok(t) => t,
            Err(p) => return ctx.tolerate(Violation::new(format!("C11:hilbert-design-panic:{}", p.site()), format!("fir::hilbert with {n} taps panicked: {}", p.msg))),
        };
        ctx.count("hilbert_design_checked");
        let mid = (n - 1) / 2;
        let mut c: Option<f64> = None;
        for i in 1..=mid {
            for (idx, sign) in [(mid + i, 1.0f64), (mid - i, -1.0)] {
                if i % 2 == 0 {
                    if t[idx] != 0.0 {
                        return ctx.tolerate(Violation::new("C11:hilbert-design", format!("fir::hilbert, {n} taps: tap at even offset {i} from the centre is {}", t[idx])));
                    }
                    continue;
                }
                let wv = w.0[idx] as f64;
                if wv.abs() < 1e-4 {
                    continue;
                }
                let k = sign * t[idx] as f64 * i as f64 / wv;
                match c {
                    None => c = Some(k),
                    Some(c0) => {
                        if (k - c0).abs() > 1e-3 * c0.abs().max(1e-6) {
                            return ctx.tolerate(Violation::new("C11:hilbert-design", format!("fir::hilbert, {n} taps: tap {idx} (offset {}{i}) is {} = {k:.6} x window/offset, the other taps give {c0:.6}", if sign > 0.0 { "+" } else { "-" }, t[idx])));
                        }
                    }
                }
            }
        }
    }
    // Tap design: symmetric, unit DC gain (Hamming windows are symmetric here).
    if src.chance(1, 4) {
        let sr = *src.pick(&[8000.0f32, 44100.0, 48000.0, 50000.0]);
        let cutoff = sr / *src.pick(&[4.0f32, 8.0, 20.0, 45.0]);
        // Transition widths over a dense range, so that every tap count parity
        // class (ntaps mod 4) and small as well as large designs come up.
        let tw = sr / if src.coin() { src.range(2, 90) as f32 } else { *src.pick(&[10.0f32, 50.0, 100.0, 400.0]) };
        let wt = if src.coin() { rustradio::window::WindowType::Hamming } else { rustradio::window::WindowType::HammingParm(0.5) };
        let t = match crate::engine::catch(|| rustradio::fir::low_pass(sr, cutoff, tw, &wt)) {
            Ok(t) => t,
            Err(p) => return ctx.tolerate(Violation::new(format!("C11:low-pass-panic:{}", p.site()), format!("low_pass({sr},{cutoff},{tw}) panicked: {}", p.msg))),
        };
        ctx.count("tap_design_checked");
        // The complex-valued variant is the same design (so: the same symmetry
        // and DC gain), with zero imaginary parts.
        match crate::engine::catch(|| rustradio::fir::low_pass_complex(sr, cutoff, tw, &wt)) {
            Ok(c) => {
                if c.len() != t.len() || c.iter().zip(&t).any(|(c, t)| c.re.to_bits() != t.to_bits() || c.im != 0.0) {
                    return ctx.tolerate(Violation::new("C11:low-pass-complex", format!("low_pass_complex({sr},{cutoff},{tw}) is not low_pass with zero imaginary parts ({} vs {} taps)", c.len(), t.len())));
                }
            }
            Err(p) => return ctx.tolerate(Violation::new(format!("C11:low-pass-panic:{}", p.site()), format!("low_pass_complex({sr},{cutoff},{tw}) panicked: {}", p.msg))),
        }
        let n = t.len();
        if n % 2 == 0 {
            return ctx.tolerate(Violation::new("C11:low-pass-even", format!("low_pass({sr},{cutoff},{tw}) returned {n} taps (even): not symmetric about a sample")));
        }
        let sum: f64 = t.iter().map(|&x| x as f64).sum();
        let amax: f64 = t.iter().map(|&x| (x as f64).abs()).sum();
        // f32 taps: the sum carries about n*eps of rounding.
        if (sum - 1.0).abs() > (n as f64 * 2e-7 + 2e-6) * amax.max(1.0) {
            return ctx.tolerate(Violation::new("C11:low-pass-dc-gain", format!("low_pass({sr},{cutoff},{tw}) taps sum to {sum}, expected unit DC gain")));
        }
        for i in 0..n / 2 {
            if (t[i] as f64 - t[n - 1 - i] as f64).abs() > 1e-6 * (1.0 + t[i].abs() as f64) {
                return ctx.tolerate(Violation::new("C11:low-pass-symmetry", format!("low_pass({sr},{cutoff},{tw}): tap {i} = {} but tap {} = {}", t[i], n - 1 - i, t[n - 1 - i])));
            }
        }
    }
    Ok(())
}
