//! Runtimes behind the `rustradio::verif::Runtime` seam.
//!
//! * `Sched`: the baton scheduler. Managed threads are real OS threads, but
//!   exactly one runs at a time; at every scheduling point the next thread is
//!   drawn from the enabled set through the run's `Src`. Mutexes and condition
//!   variables are simulated state. A thread in a *timed* wait stays in the
//!   enabled set: picking it while not notified *is* the time-out firing.
//! * `Solo`: single-threaded virtual time (a wait whose condition is false
//!   times out at once and advances the clock; sleep advances the clock).

use std::cell::RefCell;
use std::collections::{BTreeMap, HashMap};
use std::sync::{Arc, Condvar, Mutex, MutexGuard};
use std::time::Duration;

use rustradio::verif::{Runtime, WindowKind};

use crate::engine::Violation;
use crate::src::{Src, TraceHash};

/// Panic payload used to tear down a simulation.
pub struct SimAbort;

thread_local! {
    static CUR: RefCell<Option<(Arc<Sched>, usize)>> = const { RefCell::new(None) };
}

/// Called from the panic hook: attribute a panic to the managed thread.
pub fn note_panic(msg: &str, loc: &str) {
    let cur = CUR.try_with(|c| c.borrow().clone()).ok().flatten();
    if let Some((s, tid)) = cur {
        let mut g = s.lock();
        if g.aborted.is_some() {
            // The simulation is being torn down (threads are unwound where
            // they stand, possibly inside a critical section of the code under
            // test, which poisons its std mutexes): what panics from here on
            // is a consequence of the teardown, not a finding.
            return;
        }
        let name = g.threads[tid].name.clone();
        g.panics.push((tid, name, msg.to_string(), loc.to_string()));
    }
}

// ---------------------------------------------------------------------------
// Window tracking (shared by both runtimes).

#[derive(Clone, Debug)]
pub struct Win {
    pub buf: usize,
    pub kind: WindowKind,
    pub start: usize,
    pub end: usize,
    pub cap: usize,
}

#[derive(Default)]
pub struct WindowTracker {
    pub live: Vec<Win>,
    pub opened: u64,
    pub max_live: usize,
    pub overlaps: Vec<String>,
    pub concurrent_rw: u64,
}

fn segs(start: usize, end: usize, cap: usize) -> [(usize, usize); 2] {
    // [start,end) in sample units over the doubled mapping → up to two
    // segments in [0,cap).
    if cap == 0 || start == end {
        return [(0, 0), (0, 0)];
    }
    let s = start % cap;
    let len = (end - start).min(cap);
    if s + len <= cap {
        [(s, s + len), (0, 0)]
    } else {
        [(s, cap), (0, s + len - cap)]
    }
}

fn overlap(a: &Win, b: (usize, usize, usize)) -> bool {
    let sa = segs(a.start, a.end, a.cap);
    let sb = segs(b.0, b.1, b.2);
    for x in sa {
        for y in sb {
            if x.0 < x.1 && y.0 < y.1 && x.0 < y.1 && y.0 < x.1 {
                return true;
            }
        }
    }
    false
}

impl WindowTracker {
    pub fn event(&mut self, buf: usize, kind: WindowKind, open: bool, start: usize, end: usize, cap: usize) {
        if open {
            self.opened += 1;
            if start != end {
                for w in &self.live {
                    if w.buf == buf && w.kind != kind {
                        self.concurrent_rw += 1;
                        if overlap(w, (start, end, cap)) {
                            self.overlaps.push(format!(
                                "{:?} window [{start},{end}) opened while {:?} window [{},{}) is live (capacity {cap})",
                                kind, w.kind, w.start, w.end
                            ));
                        }
                    }
                }
            }
            self.live.push(Win { buf, kind, start, end, cap });
            self.max_live = self.max_live.max(self.live.len());
        } else if let Some(i) = self
            .live
            .iter()
            .position(|w| w.buf == buf && w.kind == kind && w.start == start && w.end == end)
        {
            self.live.swap_remove(i);
        }
    }
    pub fn live_on(&self, buf: usize) -> usize {
        self.live.iter().filter(|w| w.buf == buf).count()
    }
}

// ---------------------------------------------------------------------------
// Solo runtime.

#[derive(Default)]
pub struct SoloState {
    pub clock_ns: u64,
    pub next_id: usize,
    pub timeouts: u64,
    pub sleeps: u64,
    pub windows: WindowTracker,
}

#[derive(Default)]
pub struct Solo {
    pub st: Mutex<SoloState>,
}

impl Solo {
    pub fn new() -> Arc<Self> {
        Arc::new(Self::default())
    }
    pub fn state(&self) -> MutexGuard<'_, SoloState> {
        self.st.lock().unwrap_or_else(|e| e.into_inner())
    }
    /// Install on the calling thread for the duration of `f`.
    pub fn with<R>(self: &Arc<Self>, f: impl FnOnce() -> R) -> R {
        struct Un;
        impl Drop for Un {
            fn drop(&mut self) {
                rustradio::verif::install(None);
            }
        }
        rustradio::verif::install(Some(self.clone() as Arc<dyn Runtime>));
        let _u = Un;
        f()
    }
}

impl Runtime for Solo {
    fn new_id(&self) -> usize {
        let mut s = self.state();
        s.next_id += 1;
        s.next_id
    }
    fn mutex_lock(&self, _id: usize) {}
    fn mutex_unlock(&self, _id: usize) {}
    fn cv_wait(&self, _cv: usize, _mutex: usize, timeout: Option<Duration>) -> bool {
        let mut s = self.state();
        s.timeouts += 1;
        s.clock_ns += timeout.map(|d| d.as_nanos() as u64).unwrap_or(1_000_000_000);
        true
    }
    fn cv_notify_all(&self, _cv: usize) {}
    fn atomic_access(&self, _id: usize, _store: bool) {}
    fn sleep(&self, d: Duration) {
        let mut s = self.state();
        s.sleeps += 1;
        s.clock_ns += d.as_nanos() as u64;
    }
    fn thread_create(&self, _name: Option<&str>) -> std::io::Result<usize> {
        Err(std::io::Error::other("Solo runtime cannot spawn threads"))
    }
    fn thread_created(&self, _tid: usize) {}
    fn thread_start(&self, _tid: usize) {}
    fn thread_exit(&self, _tid: usize) {}
    fn thread_join(&self, _tid: usize) {}
    fn window(&self, buf: usize, kind: WindowKind, open: bool, start: usize, end: usize, cap: usize) {
        self.state().windows.event(buf, kind, open, start, end, cap);
    }
    fn moved(&self, _buf: usize, n: usize) {
        SOLO_MOVED.with(|m| m.set(m.get() + n as u64));
    }
}

thread_local! {
    static SOLO_MOVED: std::cell::Cell<u64> = const { std::cell::Cell::new(0) };
}

/// Samples/packets committed or consumed on any stream by the calling thread
/// under a `Solo` runtime so far (monotonic).
pub fn solo_moved() -> u64 {
    SOLO_MOVED.with(|m| m.get())
}

// ---------------------------------------------------------------------------
// Scheduler.

#[derive(Clone, Copy, Debug, PartialEq, Eq)]
pub enum Strategy {
    /// Uniform random walk over the enabled set.
    Random,
    /// Keep running the current thread; preempt with probability 1/n.
    RunToBlock(u32),
    /// Random static priorities with a few priority-change points.
    Pct,
}

#[derive(Clone, Debug)]
pub struct SchedCfg {
    pub strategy: Strategy,
    /// Weight (0..=100) of firing a time-out relative to 100 for an ordinary
    /// candidate. 0 = only when nothing else can run.
    pub timeout_bias: u32,
    pub max_steps: u64,
    /// Steps without any sample/packet moving on any stream after which the
    /// run counts as stalled (0 = off).
    pub stall_steps: u64,
    /// Make the n-th thread creation fail (fault injection).
    pub spawn_fail_at: Option<usize>,
    pub pct_changes: Vec<u64>,
}

impl SchedCfg {
    /// Draw a configuration, swarm style. `fair_only` excludes PCT.
    pub fn draw(src: &mut Src, max_steps: u64, fair_only: bool) -> Self {
        let strategy = match src.below(if fair_only { 4 } else { 5 }) {
            0 => Strategy::RunToBlock(50),
            1 => Strategy::Random,
            2 => Strategy::RunToBlock(10),
            3 => Strategy::RunToBlock(4),
            _ => Strategy::Pct,
        };
        let timeout_bias = *src.pick(&[0u32, 5, 30, 100]);
        let mut pct_changes = Vec::new();
        if strategy == Strategy::Pct {
            let d = src.range(1, 3);
            for _ in 0..d {
                pct_changes.push(src.draw(max_steps.min(4000)));
            }
        }
        Self {
            strategy,
            timeout_bias,
            max_steps,
            stall_steps: 0,
            spawn_fail_at: None,
            pct_changes,
        }
    }
    pub fn fair(&self) -> bool {
        self.strategy != Strategy::Pct
    }
}

#[derive(Clone, Debug, PartialEq, Eq)]
enum St {
    /// OS thread not created yet: never enabled.
    Creating,
    Runnable,
    BlockedMutex(usize),
    CvWait {
        cv: usize,
        mutex: usize,
        timeout_ns: Option<u64>,
        notified: bool,
    },
    Joining(usize),
    Exited,
}

struct Th {
    state: St,
    name: String,
    cv: Arc<Condvar>,
    prio: i64,
    wake_timed_out: bool,
    /// Consecutive scheduling decisions at which this thread could have run
    /// (or had a time-out that could have fired) and was passed over.
    starved: u64,
}

/// See `switch`: bound on how long an enabled thread is passed over under a fair strategy.
const FAIR_WINDOW: u64 = 3000;

#[derive(Clone, Copy, Debug, PartialEq, Eq)]
pub enum Abort {
    Deadlock,
    StepBudget,
    /// No stream activity for `stall_steps` steps.
    Stalled,
    /// The watched flag was set and the run did not end within the bound.
    Deadline,
    Requested,
}

pub struct Inner {
    threads: Vec<Th>,
    current: usize,
    owners: HashMap<usize, usize>,
    next_id: usize,
    pub clock_ns: u64,
    pub steps: u64,
    src: Option<Src>,
    cfg: SchedCfg,
    pub aborted: Option<Abort>,
    pub hash: TraceHash,
    pub trace: Option<Vec<String>>,
    pub counters: BTreeMap<String, u64>,
    pub windows: WindowTracker,
    pub panics: Vec<(usize, String, String, String)>,
    pub created: usize,
    min_prio: i64,
    pub deadlock_info: String,
    /// Global event stamp for history oracles.
    pub stamp: u64,
    pub last_move_step: u64,
    pub moved_total: u64,
    /// Bounded-response watch: once the flag is set, the root must be done
    /// within `watch_bound` further scheduling steps (fair strategies only).
    pub watch: Option<Arc<std::sync::atomic::AtomicBool>>,
    pub watch_bound: u64,
    watch_step: Option<u64>,
}

impl Inner {
    pub fn count(&mut self, k: &str) {
        *self.counters.entry(k.to_string()).or_default() += 1;
    }
    pub fn live_threads(&self) -> usize {
        self.threads.iter().filter(|t| t.state != St::Exited).count()
    }
}

pub struct Sched {
    inner: Mutex<Inner>,
}

#[derive(Clone, Copy, PartialEq, Eq, Debug)]
enum CandKind {
    Run,
    Lock,
    Notified,
    Timeout,
    Join,
}

impl Sched {
    pub fn new(src: Src, cfg: SchedCfg, verbose: bool) -> Arc<Self> {
        let s = Arc::new(Self {
            inner: Mutex::new(Inner {
                threads: Vec::new(),
                current: 0,
                owners: HashMap::new(),
                next_id: 0,
                clock_ns: 0,
                steps: 0,
                src: Some(src),
                cfg,
                aborted: None,
                hash: TraceHash::default(),
                trace: if verbose { Some(Vec::new()) } else { None },
                counters: BTreeMap::new(),
                windows: WindowTracker::default(),
                panics: Vec::new(),
                created: 0,
                min_prio: 0,
                deadlock_info: String::new(),
                stamp: 0,
                last_move_step: 0,
                moved_total: 0,
                watch: None,
                watch_bound: 0,
                watch_step: None,
            }),
        });
        register(&s);
        s
    }

    pub fn lock(&self) -> MutexGuard<'_, Inner> {
        self.inner.lock().unwrap_or_else(|e| e.into_inner())
    }

    fn me(&self) -> usize {
        CUR.with(|c| c.borrow().as_ref().map(|x| x.1)).expect("runtime call from an unmanaged thread")
    }

    /// Run `f` as managed thread 0 of this scheduler on the calling thread.
    /// Returns `Err(abort)` if the simulation was torn down.
    pub fn run_root<R>(self: &Arc<Self>, f: impl FnOnce() -> R) -> Result<R, Abort> {
        {
            let mut g = self.lock();
            assert!(g.threads.is_empty());
            let prio = Self::draw_prio(&mut g);
            g.threads.push(Th {
                state: St::Runnable,
                name: "root".into(),
                cv: Arc::new(Condvar::new()),
                prio,
                wake_timed_out: false,
                starved: 0,
            });
            g.current = 0;
        }
        CUR.with(|c| *c.borrow_mut() = Some((self.clone(), 0)));
        rustradio::verif::install(Some(self.clone() as Arc<dyn Runtime>));
        let r = std::panic::catch_unwind(std::panic::AssertUnwindSafe(f));
        rustradio::verif::install(None);
        CUR.with(|c| *c.borrow_mut() = None);
        // Tear down whatever is left.
        let leftover = {
            let mut g = self.lock();
            g.threads[0].state = St::Exited;
            let live = g.live_threads();
            if live > 0 && g.aborted.is_none() {
                g.aborted = Some(Abort::Requested);
            }
            if g.aborted.is_some() {
                for t in &g.threads {
                    t.cv.notify_all();
                }
            }
            live
        };
        if leftover > 0 {
            // Give unwinding threads a moment to leave rustradio code.
            for _ in 0..2000 {
                if self.lock().live_threads() == 0 {
                    break;
                }
                std::thread::sleep(Duration::from_micros(100));
            }
        }
        let aborted = self.lock().aborted;
        match r {
            Ok(v) => match aborted {
                Some(Abort::Deadlock) | Some(Abort::StepBudget) | Some(Abort::Stalled) | Some(Abort::Deadline) => Err(aborted.unwrap()),
                _ => Ok(v),
            },
            Err(p) => {
                if p.downcast_ref::<SimAbort>().is_some() || aborted.is_some() {
                    Err(aborted.unwrap_or(Abort::Requested))
                } else {
                    std::panic::resume_unwind(p)
                }
            }
        }
    }

    pub fn take_src(&self) -> Src {
        self.lock().src.take().expect("src already taken")
    }

    /// Draw through the run's source from inside the simulation.
    pub fn with_src<R>(&self, f: impl FnOnce(&mut Src) -> R) -> R {
        let mut g = self.lock();
        f(g.src.as_mut().expect("src taken"))
    }

    /// Next global event stamp (for history oracles).
    pub fn stamp(&self) -> u64 {
        let mut g = self.lock();
        g.stamp += 1;
        g.stamp
    }

    pub fn clock_ns(&self) -> u64 {
        self.lock().clock_ns
    }

    /// Ask for the simulation to be torn down (violation found mid-run).
    pub fn request_abort(&self) {
        let mut g = self.lock();
        if g.aborted.is_none() {
            g.aborted = Some(Abort::Requested);
        }
        for t in &g.threads {
            t.cv.notify_all();
        }
    }

    fn draw_prio(g: &mut Inner) -> i64 {
        if g.cfg.strategy == Strategy::Pct {
            g.src.as_mut().map(|s| s.draw(1000) as i64).unwrap_or(0) + 1000
        } else {
            0
        }
    }

    fn abort_exit(g: MutexGuard<'_, Inner>) {
        drop(g);
        if !std::thread::panicking() {
            std::panic::panic_any(SimAbort);
        }
    }

    fn enabled(g: &Inner) -> Vec<(usize, CandKind)> {
        let mut v = Vec::new();
        for (tid, t) in g.threads.iter().enumerate() {
            match &t.state {
                St::Runnable => v.push((tid, CandKind::Run)),
                St::BlockedMutex(m) => {
                    if !g.owners.contains_key(m) {
                        v.push((tid, CandKind::Lock));
                    }
                }
                St::CvWait {
                    mutex,
                    timeout_ns,
                    notified,
                    ..
                } => {
                    if !g.owners.contains_key(mutex) {
                        if *notified {
                            v.push((tid, CandKind::Notified));
                        } else if timeout_ns.is_some() {
                            v.push((tid, CandKind::Timeout));
                        }
                    }
                }
                St::Joining(t2) => {
                    if g.threads[*t2].state == St::Exited {
                        v.push((tid, CandKind::Join));
                    }
                }
                St::Exited | St::Creating => {}
            }
        }
        v
    }

    /// The heart: choose who runs next, hand over the baton, park.
    /// `me` has already been put in its new state.
    fn switch(&self, mut g: MutexGuard<'_, Inner>, me: usize, what: &str, demote: bool) {
        if g.aborted.is_some() {
            return Self::abort_exit(g);
        }
        g.steps += 1;
        if g.cfg.stall_steps > 0 && g.steps - g.last_move_step > g.cfg.stall_steps {
            g.aborted = Some(Abort::Stalled);
            g.deadlock_info = g
                .threads
                .iter()
                .enumerate()
                .filter(|(_, t)| t.state != St::Exited)
                .map(|(i, t)| format!("{}:{}={:?}", i, t.name, t.state))
                .collect::<Vec<_>>()
                .join(", ");
            for t in &g.threads {
                t.cv.notify_all();
            }
            return Self::abort_exit(g);
        }
        if g.watch_bound > 0 {
            if g.watch_step.is_none() && g.watch.as_ref().is_some_and(|w| w.load(std::sync::atomic::Ordering::SeqCst)) {
                g.watch_step = Some(g.steps);
            }
            if g.watch_step.is_some_and(|w| g.steps - w > g.watch_bound) {
                g.aborted = Some(Abort::Deadline);
                g.deadlock_info = g
                    .threads
                    .iter()
                    .enumerate()
                    .filter(|(_, t)| t.state != St::Exited)
                    .map(|(i, t)| format!("{}:{}={:?}", i, t.name, t.state))
                    .collect::<Vec<_>>()
                    .join(", ");
                for t in &g.threads {
                    t.cv.notify_all();
                }
                return Self::abort_exit(g);
            }
        }
        if g.steps > g.cfg.max_steps {
            g.aborted = Some(Abort::StepBudget);
            for t in &g.threads {
                t.cv.notify_all();
            }
            return Self::abort_exit(g);
        }
        if g.cfg.strategy == Strategy::Pct {
            let step = g.steps;
            if g.cfg.pct_changes.contains(&step) || demote {
                g.min_prio -= 1;
                let p = g.min_prio;
                g.threads[me].prio = p;
                if !demote {
                    g.count("pct_priority_change");
                }
            }
        }
        let mut cands = Self::enabled(&g);
        if cands.is_empty() {
            if g.live_threads() == 0 {
                return;
            }
            g.aborted = Some(Abort::Deadlock);
            g.deadlock_info = g
                .threads
                .iter()
                .enumerate()
                .filter(|(_, t)| t.state != St::Exited)
                .map(|(i, t)| format!("{}:{}={:?}", i, t.name, t.state))
                .collect::<Vec<_>>()
                .join(", ");
            for t in &g.threads {
                t.cv.notify_all();
            }
            return Self::abort_exit(g);
        }
        // Canonical order: current thread first, then ascending tid.
        if let Some(p) = cands.iter().position(|c| c.0 == me) {
            let c = cands.remove(p);
            cands.insert(0, c);
        }
        let only_timeouts = cands.iter().all(|c| c.1 == CandKind::Timeout);
        let bias = g.cfg.timeout_bias;
        let weights: Vec<u32> = match g.cfg.strategy {
            Strategy::Random => cands
                .iter()
                .map(|c| {
                    if c.1 == CandKind::Timeout && !only_timeouts {
                        bias
                    } else {
                        100
                    }
                })
                .collect(),
            Strategy::RunToBlock(n) => cands
                .iter()
                .enumerate()
                .map(|(i, c)| {
                    let base = if c.1 == CandKind::Timeout && !only_timeouts {
                        bias
                    } else {
                        100
                    };
                    if i == 0 && c.0 == me && c.1 == CandKind::Run && !demote {
                        base * n * (cands.len() as u32).max(1)
                    } else {
                        base
                    }
                })
                .collect(),
            Strategy::Pct => {
                // Highest priority among non-timeout candidates; time-outs only
                // when nothing else (or by bias draw below).
                let pool: Vec<usize> = if only_timeouts {
                    (0..cands.len()).collect()
                } else {
                    (0..cands.len()).filter(|&i| cands[i].1 != CandKind::Timeout).collect()
                };
                let best = *pool
                    .iter()
                    .max_by_key(|&&i| (g.threads[cands[i].0].prio, std::cmp::Reverse(cands[i].0)))
                    .unwrap();
                (0..cands.len())
                    .map(|i| {
                        if i == best {
                            100
                        } else if cands[i].1 == CandKind::Timeout {
                            bias / 4
                        } else {
                            0
                        }
                    })
                    .collect()
            }
        };
        // Bounded fairness for the strategies the liveness oracles call fair:
        // a thread that could have run at each of the last FAIR_WINDOW
        // decisions is picked now, whatever the choice list says. (Record-mode
        // draws are fair with probability ~1 anyway; an edited or exhausted
        // choice list - minimisation, hand-written replays - is not.)
        let forced = if g.cfg.strategy != Strategy::Pct {
            cands
                .iter()
                .enumerate()
                .filter(|(_, c)| g.threads[c.0].starved > if c.1 == CandKind::Timeout { 3 * FAIR_WINDOW } else { FAIR_WINDOW })
                .max_by_key(|(_, c)| (g.threads[c.0].starved, std::cmp::Reverse(c.0)))
                .map(|(i, _)| i)
        } else {
            None
        };
        let idx = match forced {
            Some(i) => {
                g.count("fairness_forced");
                i
            }
            None => g.src.as_mut().map(|s| s.weighted(&weights)).unwrap_or(0),
        };
        let (chosen, kind) = cands[idx.min(cands.len() - 1)];
        {
            // Timed waiters count too: real time passes while others run, so a
            // time-out cannot be put off for ever either (three windows).
            let passed: Vec<usize> = cands.iter().filter(|c| c.0 != chosen).map(|c| c.0).collect();
            for (tid, t) in g.threads.iter_mut().enumerate() {
                if passed.contains(&tid) {
                    t.starved += 1;
                } else {
                    t.starved = 0;
                }
            }
        }
        // Apply the transition of the chosen thread.
        let prev = std::mem::replace(&mut g.threads[chosen].state, St::Runnable);
        match (&prev, kind) {
            (St::BlockedMutex(m), CandKind::Lock) => {
                g.owners.insert(*m, chosen);
            }
            (St::CvWait { mutex, .. }, CandKind::Notified) => {
                g.owners.insert(*mutex, chosen);
                g.threads[chosen].wake_timed_out = false;
            }
            (
                St::CvWait {
                    mutex, timeout_ns, ..
                },
                CandKind::Timeout,
            ) => {
                g.owners.insert(*mutex, chosen);
                g.threads[chosen].wake_timed_out = true;
                g.clock_ns += timeout_ns.unwrap_or(0);
                g.count("fault:timeout_fired");
                if g.cfg.strategy == Strategy::Pct {
                    g.min_prio -= 1;
                    let p = g.min_prio;
                    g.threads[chosen].prio = p;
                }
            }
            _ => {}
        }
        if chosen != me && g.threads[me].state == St::Runnable {
            g.count("fault:preempt");
        }
        let k = kind as u64;
        g.hash.add(((chosen as u64) << 8) | k);
        if g.trace.is_some() {
            let line = format!(
                "step {} t{}({}) {} -> run t{}({}) [{:?}]",
                g.steps, me, g.threads[me].name, what, chosen, g.threads[chosen].name, kind
            );
            if let Some(tr) = &mut g.trace {
                if tr.len() < 20_000 {
                    tr.push(line);
                }
            }
        }
        if chosen == me {
            return;
        }
        g.current = chosen;
        g.threads[chosen].cv.notify_all();
        if g.threads[me].state == St::Exited {
            return;
        }
        let cv = g.threads[me].cv.clone();
        while g.current != me && g.aborted.is_none() {
            g = cv.wait(g).unwrap_or_else(|e| e.into_inner());
        }
        if g.aborted.is_some() {
            Self::abort_exit(g);
        }
    }

    fn yield_now(&self, what: &str, demote: bool) {
        let me = self.me();
        let g = self.lock();
        self.switch(g, me, what, demote);
    }

    /// Explicit scheduling point for harness threads.
    pub fn point(&self, what: &str) {
        self.yield_now(what, false);
    }

    pub fn note(&self, f: impl FnOnce() -> String) {
        let mut g = self.lock();
        if let Some(tr) = &mut g.trace {
            if tr.len() < 20_000 {
                let s = f();
                tr.push(s);
            }
        }
    }
}

impl Runtime for Sched {
    fn new_id(&self) -> usize {
        let mut g = self.lock();
        g.next_id += 1;
        g.next_id
    }

    fn mutex_lock(&self, id: usize) {
        let me = self.me();
        // Scheduling point before the acquisition.
        {
            let g = self.lock();
            if g.aborted.is_some() {
                return Self::abort_exit(g);
            }
            self.switch(g, me, "lock?", false);
        }
        let mut g = self.lock();
        if g.aborted.is_some() {
            return Self::abort_exit(g);
        }
        if !g.owners.contains_key(&id) {
            g.owners.insert(id, me);
            return;
        }
        g.count("mutex_contended");
        g.threads[me].state = St::BlockedMutex(id);
        // switch() gives us the mutex when it picks us.
        self.switch(g, me, "blocked-on-mutex", false);
    }

    fn mutex_unlock(&self, id: usize) {
        let me = self.me();
        let mut g = self.lock();
        if g.owners.get(&id) == Some(&me) {
            g.owners.remove(&id);
        }
        if g.aborted.is_some() {
            return Self::abort_exit(g);
        }
        if std::thread::panicking() {
            return;
        }
        self.switch(g, me, "unlock", false);
    }

    fn cv_wait(&self, cv: usize, mutex: usize, timeout: Option<Duration>) -> bool {
        let me = self.me();
        let mut g = self.lock();
        if g.owners.get(&mutex) == Some(&me) {
            g.owners.remove(&mutex);
        }
        if g.aborted.is_some() {
            Self::abort_exit(g);
            return true;
        }
        g.threads[me].state = St::CvWait {
            cv,
            mutex,
            timeout_ns: timeout.map(|d| d.as_nanos() as u64),
            notified: false,
        };
        g.threads[me].wake_timed_out = false;
        g.count("cv_wait");
        self.switch(g, me, "cv-wait", false);
        let g = self.lock();
        g.threads[me].wake_timed_out
    }

    fn cv_notify_all(&self, cv: usize) {
        let me = self.me();
        let mut g = self.lock();
        let mut n = 0;
        for t in g.threads.iter_mut() {
            if let St::CvWait {
                cv: c, notified, ..
            } = &mut t.state
            {
                if *c == cv && !*notified {
                    *notified = true;
                    n += 1;
                }
            }
        }
        if n > 0 {
            g.count("cv_notify_woke");
        }
        if g.aborted.is_some() {
            return Self::abort_exit(g);
        }
        if std::thread::panicking() {
            return;
        }
        self.switch(g, me, "notify", false);
    }

    fn atomic_access(&self, _id: usize, store: bool) {
        if std::thread::panicking() {
            return;
        }
        self.yield_now(if store { "atomic-store" } else { "atomic-load" }, false);
    }

    fn sleep(&self, d: Duration) {
        {
            let mut g = self.lock();
            g.clock_ns += d.as_nanos() as u64;
            g.count("sleep");
        }
        if std::thread::panicking() {
            return;
        }
        self.yield_now("sleep", true);
    }

    fn thread_create(&self, name: Option<&str>) -> std::io::Result<usize> {
        let mut g = self.lock();
        if g.aborted.is_some() {
            drop(g);
            return Err(std::io::Error::other("simulation aborted"));
        }
        let n = g.created;
        g.created += 1;
        if g.cfg.spawn_fail_at == Some(n) {
            g.count("fault:spawn_eagain");
            return Err(std::io::Error::from_raw_os_error(libc::EAGAIN));
        }
        let prio = Self::draw_prio(&mut g);
        g.threads.push(Th {
            state: St::Creating,
            name: name.unwrap_or("?").to_string(),
            cv: Arc::new(Condvar::new()),
            prio,
            wake_timed_out: false,
            starved: 0,
        });
        let tid = g.threads.len() - 1;
        Ok(tid)
    }

    fn thread_created(&self, tid: usize) {
        let me = self.me();
        let mut g = self.lock();
        g.threads[tid].state = St::Runnable;
        g.count("thread_spawned");
        if g.aborted.is_some() {
            return Self::abort_exit(g);
        }
        self.switch(g, me, "spawned", false);
    }

    fn thread_start(&self, tid: usize) {
        let me_arc: Arc<Sched> = lookup_sched(self);
        CUR.with(|c| *c.borrow_mut() = Some((me_arc, tid)));
        crate::engine::set_quiet(true);
        let mut g = self.lock();
        let cv = g.threads[tid].cv.clone();
        while g.current != tid && g.aborted.is_none() {
            g = cv.wait(g).unwrap_or_else(|e| e.into_inner());
        }
        if g.aborted.is_some() {
            // Never ran: mark exited so nobody waits for us.
            g.threads[tid].state = St::Exited;
            Self::abort_exit(g);
        }
    }

    fn thread_exit(&self, tid: usize) {
        let mut g = self.lock();
        g.threads[tid].state = St::Exited;
        // Release anything still owned (unwinding).
        g.owners.retain(|_, o| *o != tid);
        if g.aborted.is_some() {
            return;
        }
        self.switch(g, tid, "exit", false);
        CUR.with(|c| *c.borrow_mut() = None);
    }

    fn thread_join(&self, tid: usize) {
        let me = self.me();
        let mut g = self.lock();
        if g.aborted.is_some() {
            return Self::abort_exit(g);
        }
        if g.threads[tid].state != St::Exited {
            g.threads[me].state = St::Joining(tid);
        }
        self.switch(g, me, "join", false);
    }

    fn window(&self, buf: usize, kind: WindowKind, open: bool, start: usize, end: usize, cap: usize) {
        self.lock().windows.event(buf, kind, open, start, end, cap);
    }
    fn moved(&self, _buf: usize, n: usize) {
        let mut g = self.lock();
        g.last_move_step = g.steps;
        g.moved_total += n as u64;
    }
}

// A managed thread needs an `Arc<Sched>` for its thread-local; the trait
// object handed to it cannot be downcast, so schedulers register themselves.
static SCHEDS: Mutex<Vec<std::sync::Weak<Sched>>> = Mutex::new(Vec::new());

pub fn register(s: &Arc<Sched>) {
    let mut v = SCHEDS.lock().unwrap_or_else(|e| e.into_inner());
    v.retain(|w| w.strong_count() > 0);
    v.push(Arc::downgrade(s));
}

fn lookup_sched(me: &Sched) -> Arc<Sched> {
    let v = SCHEDS.lock().unwrap_or_else(|e| e.into_inner());
    for w in v.iter() {
        if let Some(a) = w.upgrade() {
            if std::ptr::eq(Arc::as_ptr(&a), me as *const Sched) {
                return a;
            }
        }
    }
    panic!("scheduler not registered");
}

/// Convert the scheduler's abort state into a violation, if it is one.
pub fn abort_violation(prop: &str, a: Abort, g: &Inner, fair: bool) -> Option<Violation> {
    match a {
        Abort::Deadlock => Some(Violation::new(
            format!("{prop}:deadlock"),
            format!("no thread can run: {}", g.deadlock_info),
        )),
        Abort::Stalled if fair => Some(Violation::new(
            format!("{prop}:no-termination"),
            format!(
                "no sample moved on any stream for {} scheduler steps under a fair strategy, threads still alive: {}",
                g.cfg.stall_steps, g.deadlock_info
            ),
        )),
        Abort::Deadline if fair => Some(Violation::new(
            format!("{prop}:no-return-after-failure"),
            format!(
                "run() had not returned {} scheduler steps after a block's work() failed (fair strategy), threads still alive: {}",
                g.watch_bound, g.deadlock_info
            ),
        )),
        Abort::StepBudget if fair && g.cfg.stall_steps == 0 => Some(Violation::new(
            format!("{prop}:no-termination"),
            format!("step budget of {} exhausted under a fair strategy", g.cfg.max_steps),
        )),
        _ => None,
    }
}
