//! The one source of nondeterminism.
//!
//! Every decision of every engine (scenario parameters, data, fault plan,
//! strategy, each scheduling choice) is a `draw(n)` on a `Src`. In record mode
//! the draw comes from a PRNG seeded by one integer and is logged; in replay
//! mode it comes from the logged list (0 when the list is exhausted, reduced
//! modulo `n` when out of range), so any *edited* list is still executable.
//! A run is therefore a pure function of its choice list, which is what the
//! replay files store and what the minimiser shrinks.
//!
//! Convention used by all generators: 0 is the simplest choice ("continue the
//! current thread", "no fault", "smallest size").

pub fn splitmix64(x: &mut u64) -> u64 {
    *x = x.wrapping_add(0x9E37_79B9_7F4A_7C15);
    let mut z = *x;
    z = (z ^ (z >> 30)).wrapping_mul(0xBF58_476D_1CE4_E5B9);
    z = (z ^ (z >> 27)).wrapping_mul(0x94D0_49BB_1331_11EB);
    z ^ (z >> 31)
}

/// Seed of run `i` of a batch with master seed `seed`.
pub fn run_seed(seed: u64, i: u64) -> u64 {
    let mut x = seed ^ i.wrapping_mul(0xD134_2543_DE82_EF95);
    let a = splitmix64(&mut x);
    let b = splitmix64(&mut x);
    a ^ b.rotate_left(17)
}

/// xoshiro256**
#[derive(Clone)]
pub struct Rng {
    s: [u64; 4],
}

impl Rng {
    pub fn new(seed: u64) -> Self {
        let mut x = seed;
        let s = [
            splitmix64(&mut x),
            splitmix64(&mut x),
            splitmix64(&mut x),
            splitmix64(&mut x),
        ];
        Self { s }
    }
    pub fn next(&mut self) -> u64 {
        let r = self.s[1].wrapping_mul(5).rotate_left(7).wrapping_mul(9);
        let t = self.s[1] << 17;
        self.s[2] ^= self.s[0];
        self.s[3] ^= self.s[1];
        self.s[1] ^= self.s[2];
        self.s[0] ^= self.s[3];
        self.s[2] ^= t;
        self.s[3] = self.s[3].rotate_left(45);
        r
    }
}

pub struct Src {
    rng: Rng,
    replay: Option<Vec<u64>>,
    pos: usize,
    pub log: Vec<u64>,
    /// In record mode the first draws come from here (enumerated cases).
    pub prefix: Vec<u64>,
    /// Cap on the number of draws (runaway protection); draws beyond return 0.
    pub max_draws: usize,
}

impl Src {
    pub fn from_seed(seed: u64) -> Self {
        Self {
            rng: Rng::new(seed),
            replay: None,
            pos: 0,
            log: Vec::new(),
            prefix: Vec::new(),
            max_draws: 50_000_000,
        }
    }
    pub fn from_choices(choices: Vec<u64>) -> Self {
        Self {
            rng: Rng::new(0),
            replay: Some(choices),
            pos: 0,
            log: Vec::new(),
            prefix: Vec::new(),
            max_draws: 50_000_000,
        }
    }
    pub fn is_replay(&self) -> bool {
        self.replay.is_some()
    }
    pub fn draws(&self) -> usize {
        self.log.len()
    }

    /// Uniform in [0, n). n == 0 is treated as 1.
    pub fn draw(&mut self, n: u64) -> u64 {
        let n = n.max(1);
        if self.log.len() >= self.max_draws {
            return 0;
        }
        let v = match &self.replay {
            Some(list) => {
                let v = list.get(self.pos).copied().unwrap_or(0);
                self.pos += 1;
                v % n
            }
            None if self.log.len() < self.prefix.len() => self.prefix[self.log.len()] % n,
            None => {
                if n == 1 {
                    0
                } else {
                    // Multiply-shift; bias is irrelevant here.
                    ((self.rng.next() as u128 * n as u128) >> 64) as u64
                }
            }
        };
        self.log.push(v);
        v
    }
    pub fn below(&mut self, n: usize) -> usize {
        self.draw(n as u64) as usize
    }
    /// Inclusive range.
    pub fn range(&mut self, lo: usize, hi: usize) -> usize {
        debug_assert!(hi >= lo);
        lo + self.below(hi - lo + 1)
    }
    /// True with probability num/den. Draw 0 (the simplest) means false.
    pub fn chance(&mut self, num: u64, den: u64) -> bool {
        self.draw(den) >= den - num.min(den)
    }
    pub fn coin(&mut self) -> bool {
        self.draw(2) == 1
    }
    pub fn pick<'a, T>(&mut self, xs: &'a [T]) -> &'a T {
        &xs[self.below(xs.len())]
    }
    /// Index drawn with the given weights (all-zero weights → index 0).
    /// The *index* is what is logged, so replay does not depend on weights.
    pub fn weighted(&mut self, w: &[u32]) -> usize {
        let n = w.len().max(1);
        if self.log.len() >= self.max_draws {
            return 0;
        }
        let v = match &self.replay {
            Some(list) => {
                let v = list.get(self.pos).copied().unwrap_or(0);
                self.pos += 1;
                let mut v = (v % n as u64) as usize;
                if w.get(v).copied().unwrap_or(0) == 0 {
                    // Edited list names a disabled option: first enabled one.
                    v = w.iter().position(|&x| x > 0).unwrap_or(0);
                }
                v
            }
            None if self.log.len() < self.prefix.len() => {
                (self.prefix[self.log.len()] % n as u64) as usize
            }
            None => {
                let total: u64 = w.iter().map(|&x| x as u64).sum();
                if total == 0 {
                    0
                } else {
                    let mut r = ((self.rng.next() as u128 * total as u128) >> 64) as u64;
                    let mut idx = 0;
                    for (i, &x) in w.iter().enumerate() {
                        if r < x as u64 {
                            idx = i;
                            break;
                        }
                        r -= x as u64;
                    }
                    idx
                }
            }
        };
        self.log.push(v as u64);
        v
    }
    /// Raw 64 random bits (logged as-is).
    pub fn bits(&mut self) -> u64 {
        self.draw(u64::MAX)
    }
    /// A size biased toward small values and toward `edges`.
    pub fn size_biased(&mut self, max: usize, edges: &[usize]) -> usize {
        match self.below(4) {
            0 => self.below(max.min(4) + 1),
            1 if !edges.is_empty() => (*self.pick(edges)).min(max),
            2 => self.below(max.min(64) + 1),
            _ => self.below(max + 1),
        }
    }
}

/// FNV-1a style incremental hasher for trace identity.
#[derive(Clone, Copy)]
pub struct TraceHash(pub u64);
impl Default for TraceHash {
    fn default() -> Self {
        Self(0xcbf2_9ce4_8422_2325)
    }
}
impl TraceHash {
    pub fn add(&mut self, v: u64) {
        let mut x = self.0 ^ v;
        x = x.wrapping_mul(0x0000_0100_0000_01B3);
        x ^= x >> 29;
        self.0 = x.wrapping_mul(0x9E37_79B9_7F4A_7C15);
    }
    pub fn add_bytes(&mut self, b: &[u8]) {
        for c in b.chunks(8) {
            let mut v = 0u64;
            for (i, x) in c.iter().enumerate() {
                v |= (*x as u64) << (8 * i);
            }
            self.add(v ^ ((c.len() as u64) << 56));
        }
    }
}
