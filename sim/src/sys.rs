//! S3: the syscall seam. The binary defines `read`, `write`, `recv`, `mmap`,
//! `munmap`, `ftruncate64` with C linkage; the Rust standard library and the
//! `libc` crate bind to these at link time. With no plan armed on the calling
//! thread every wrapper is a pass-through via `syscall(2)`.

use std::cell::{Cell, RefCell};

use libc::{c_int, c_void, off_t, size_t, ssize_t};

#[derive(Default, Clone, Debug)]
pub struct IoPlan {
    /// read()/recv() on fds >= 3 return at most the next value of this cyclic
    /// list (0 entries = unlimited).
    pub read_chunks: Vec<usize>,
    /// Same for write().
    pub write_chunks: Vec<usize>,
    /// The n-th write (0-based, fds >= 3) fails once with EINTR before doing
    /// anything.
    pub eintr_at_write: Option<usize>,
    /// The n-th write performs only `torn` bytes and then the process dies.
    pub crash_at_write: Option<(usize, usize)>,
    /// The n-th write fails with this errno (ENOSPC, EIO: not retryable)
    /// without writing anything.
    pub fail_at_write: Option<(usize, i32)>,
    /// The n-th mmap by this thread fails with ENOMEM.
    pub mmap_fail_at: Option<usize>,
    /// The n-th ftruncate by this thread fails with ENOSPC.
    pub ftruncate_fail_at: Option<usize>,
}

#[derive(Default, Clone, Debug)]
pub struct IoStats {
    pub reads: usize,
    pub short_reads: usize,
    pub reads_inside_sample: usize,
    pub writes: usize,
    pub short_writes: usize,
    pub eintr: usize,
    pub write_errors: usize,
    pub mmaps: usize,
    pub munmaps: usize,
    pub mmap_failed: usize,
    pub ftruncates: usize,
    pub ftruncate_failed: usize,
    /// Bytes currently mapped by this thread through the wrapper.
    pub mapped: Vec<(usize, usize)>,
    pub bytes_read: usize,
    pub bytes_written: usize,
    /// Sample size for the "split inside a sample" probe (0 = off).
    pub sample_size: usize,
}

thread_local! {
    static ARMED: Cell<bool> = const { Cell::new(false) };
    static PLAN: RefCell<IoPlan> = RefCell::new(IoPlan::default());
    static STATS: RefCell<IoStats> = RefCell::new(IoStats::default());
}

pub fn arm(plan: IoPlan, sample_size: usize) {
    PLAN.with(|p| *p.borrow_mut() = plan);
    STATS.with(|s| {
        *s.borrow_mut() = IoStats {
            sample_size,
            ..Default::default()
        }
    });
    ARMED.with(|a| a.set(true));
}

/// Replace the plan, keeping the counters (fault indices are absolute).
pub fn set_plan(plan: IoPlan) {
    PLAN.with(|p| *p.borrow_mut() = plan);
}

/// Process-wide ledger of shared mappings (streams may be created on one
/// thread and dropped on another). Only meaningful in a single-worker check.
static LEDGER_ON: std::sync::atomic::AtomicBool = std::sync::atomic::AtomicBool::new(false);
static LEDGER: std::sync::Mutex<Vec<(usize, usize)>> = std::sync::Mutex::new(Vec::new());

/// Ranges that were stream mappings, have been unmapped, and have not been
/// mapped again through this seam since. An munmap that hits one releases
/// memory its caller no longer owns (a second unmap of the same range): by
/// then the address may belong to another thread's fresh mapping.
static GRAVE: std::sync::Mutex<Vec<(usize, usize)>> = std::sync::Mutex::new(Vec::new());
static DOUBLE_UNMAPS: std::sync::Mutex<Vec<(usize, usize)>> = std::sync::Mutex::new(Vec::new());

/// Every live mapping made through this seam, whatever its flags (a
/// reservation may be anonymous and private), and fixed-address mappings that
/// were placed over a range not wholly inside one of them: such a range is a
/// hole in the address space that any other thread's mmap may have taken in
/// the meantime, and `MAP_FIXED` silently replaces what is there.
static ALL_LIVE: std::sync::Mutex<Vec<(usize, usize)>> = std::sync::Mutex::new(Vec::new());
static FIXED_OVER_UNOWNED: std::sync::Mutex<Vec<(usize, usize)>> = std::sync::Mutex::new(Vec::new());

pub fn fixed_over_unowned() -> Vec<(usize, usize)> {
    FIXED_OVER_UNOWNED.lock().unwrap_or_else(|e| e.into_inner()).clone()
}

pub fn double_unmaps() -> Vec<(usize, usize)> {
    DOUBLE_UNMAPS.lock().unwrap_or_else(|e| e.into_inner()).clone()
}

fn overlap(v: &[(usize, usize)], addr: usize, len: usize) -> Vec<(usize, usize)> {
    let end = addr + len;
    v.iter().filter_map(|&(a, l)| { let lo = a.max(addr); let hi = (a + l).min(end); if lo < hi { Some((lo, hi - lo)) } else { None } }).collect()
}

pub fn ledger_start() {
    LEDGER.lock().unwrap_or_else(|e| e.into_inner()).clear();
    GRAVE.lock().unwrap_or_else(|e| e.into_inner()).clear();
    DOUBLE_UNMAPS.lock().unwrap_or_else(|e| e.into_inner()).clear();
    ALL_LIVE.lock().unwrap_or_else(|e| e.into_inner()).clear();
    FIXED_OVER_UNOWNED.lock().unwrap_or_else(|e| e.into_inner()).clear();
    LEDGER_ON.store(true, std::sync::atomic::Ordering::SeqCst);
}

pub fn ledger_stop() -> Vec<(usize, usize)> {
    LEDGER_ON.store(false, std::sync::atomic::Ordering::SeqCst);
    LEDGER.lock().unwrap_or_else(|e| e.into_inner()).clone()
}

fn ledger_on() -> bool {
    LEDGER_ON.load(std::sync::atomic::Ordering::SeqCst)
}

pub fn disarm() -> IoStats {
    ARMED.with(|a| a.set(false));
    STATS.with(|s| s.borrow().clone())
}

pub fn stats() -> IoStats {
    STATS.with(|s| s.borrow().clone())
}

fn armed() -> bool {
    ARMED.try_with(|a| a.get()).unwrap_or(false)
}

fn set_errno(e: c_int) {
    // SAFETY: errno location of the calling thread.
    unsafe { *libc::__errno_location() = e };
}

fn track_map(addr: usize, len: usize) {
    STATS.with(|s| {
        let mut s = s.borrow_mut();
        // MAP_FIXED over an existing tracked range replaces it.
        untrack(&mut s.mapped, addr, len);
        s.mapped.push((addr, len));
    });
}

fn untrack(v: &mut Vec<(usize, usize)>, addr: usize, len: usize) {
    let end = addr + len;
    let mut out = Vec::with_capacity(v.len() + 1);
    for &(a, l) in v.iter() {
        let e = a + l;
        if e <= addr || a >= end {
            out.push((a, l));
            continue;
        }
        if a < addr {
            out.push((a, addr - a));
        }
        if e > end {
            out.push((end, e - end));
        }
    }
    *v = out;
}

/// # Safety
/// C ABI replacement for read(2).
#[unsafe(no_mangle)]
pub unsafe extern "C" fn read(fd: c_int, buf: *mut c_void, count: size_t) -> ssize_t {
    let mut n = count;
    let mut limited = false;
    if fd >= 3 && armed() && count > 0 {
        let lim = PLAN.with(|p| {
            let p = p.borrow();
            if p.read_chunks.is_empty() {
                0
            } else {
                let i = STATS.with(|s| s.borrow().reads);
                p.read_chunks[i % p.read_chunks.len()]
            }
        });
        if lim > 0 && lim < n {
            n = lim;
            limited = true;
        }
    }
    // SAFETY: forwarding the caller's buffer.
    let r = unsafe { libc::syscall(libc::SYS_read, fd, buf, n) } as ssize_t;
    if fd >= 3 && armed() {
        STATS.with(|s| {
            let mut s = s.borrow_mut();
            s.reads += 1;
            if r > 0 {
                if limited && (r as usize) < count {
                    s.short_reads += 1;
                }
                s.bytes_read += r as usize;
                if s.sample_size > 1 && s.bytes_read % s.sample_size != 0 {
                    s.reads_inside_sample += 1;
                }
            }
        });
    }
    r
}

/// # Safety
/// C ABI replacement for recv(2).
#[unsafe(no_mangle)]
pub unsafe extern "C" fn recv(fd: c_int, buf: *mut c_void, count: size_t, flags: c_int) -> ssize_t {
    let mut n = count;
    let mut fl = flags;
    let mut limited = false;
    if fd >= 3 && armed() && count > 0 {
        let lim = PLAN.with(|p| {
            let p = p.borrow();
            if p.read_chunks.is_empty() {
                0
            } else {
                let i = STATS.with(|s| s.borrow().reads);
                p.read_chunks[i % p.read_chunks.len()]
            }
        });
        if lim > 0 {
            if lim < n {
                n = lim;
                limited = true;
            }
            // Deterministic segmentation: wait for exactly that many bytes
            // (or EOF), whatever the network did with the sender's writes.
            fl |= libc::MSG_WAITALL;
        }
    }
    // SAFETY: forwarding the caller's buffer.
    let r = unsafe { libc::syscall(libc::SYS_recvfrom, fd, buf, n, fl, 0usize, 0usize) } as ssize_t;
    if fd >= 3 && armed() {
        STATS.with(|s| {
            let mut s = s.borrow_mut();
            s.reads += 1;
            if r > 0 {
                if limited {
                    s.short_reads += 1;
                }
                s.bytes_read += r as usize;
                if s.sample_size > 1 && s.bytes_read % s.sample_size != 0 {
                    s.reads_inside_sample += 1;
                }
            }
        });
    }
    r
}

/// # Safety
/// C ABI replacement for write(2).
#[unsafe(no_mangle)]
pub unsafe extern "C" fn write(fd: c_int, buf: *const c_void, count: size_t) -> ssize_t {
    if fd < 3 || !armed() {
        // SAFETY: forwarding.
        return unsafe { libc::syscall(libc::SYS_write, fd, buf, count) } as ssize_t;
    }
    let idx = STATS.with(|s| s.borrow().writes);
    let (lim, eintr, crash) = PLAN.with(|p| {
        let p = p.borrow();
        let lim = if p.write_chunks.is_empty() { 0 } else { p.write_chunks[idx % p.write_chunks.len()] };
        (lim, p.eintr_at_write == Some(idx), p.crash_at_write.filter(|c| c.0 == idx).map(|c| c.1))
    });
    let fail = PLAN.with(|p| p.borrow().fail_at_write.filter(|f| f.0 == idx).map(|f| f.1));
    if let Some(e) = fail {
        PLAN.with(|p| p.borrow_mut().fail_at_write = None);
        STATS.with(|s| s.borrow_mut().write_errors += 1);
        set_errno(e);
        return -1;
    }
    if eintr {
        PLAN.with(|p| p.borrow_mut().eintr_at_write = None);
        STATS.with(|s| s.borrow_mut().eintr += 1);
        set_errno(libc::EINTR);
        return -1;
    }
    if let Some(torn) = crash {
        let n = torn.min(count);
        if n > 0 {
            // SAFETY: forwarding a prefix of the caller's buffer.
            unsafe { libc::syscall(libc::SYS_write, fd, buf, n) };
        }
        // The process dies here: nothing buffered in user space survives.
        // SAFETY: plain kill of ourselves.
        unsafe {
            libc::kill(libc::getpid(), libc::SIGKILL);
            libc::_exit(137);
        }
    }
    let mut n = count;
    if lim > 0 && lim < n {
        n = lim;
    }
    // SAFETY: forwarding.
    let r = unsafe { libc::syscall(libc::SYS_write, fd, buf, n) } as ssize_t;
    STATS.with(|s| {
        let mut s = s.borrow_mut();
        s.writes += 1;
        if r > 0 {
            s.bytes_written += r as usize;
            if (r as usize) < count {
                s.short_writes += 1;
            }
        }
    });
    r
}

/// # Safety
/// C ABI replacement for mmap(2).
#[unsafe(no_mangle)]
pub unsafe extern "C" fn mmap(addr: *mut c_void, len: size_t, prot: c_int, flags: c_int, fd: c_int, off: off_t) -> *mut c_void {
    if armed() {
        let idx = STATS.with(|s| s.borrow().mmaps);
        let fail = PLAN.with(|p| p.borrow().mmap_fail_at == Some(idx));
        STATS.with(|s| s.borrow_mut().mmaps += 1);
        if fail {
            STATS.with(|s| s.borrow_mut().mmap_failed += 1);
            set_errno(libc::ENOMEM);
            return libc::MAP_FAILED;
        }
    }
    if flags & libc::MAP_FIXED != 0 && ledger_on() {
        let live = ALL_LIVE.lock().unwrap_or_else(|e| e.into_inner());
        let covered: usize = overlap(&live, addr as usize, len).iter().map(|x| x.1).sum();
        if covered < len {
            FIXED_OVER_UNOWNED.lock().unwrap_or_else(|e| e.into_inner()).push((addr as usize, len));
        }
    }
    // SAFETY: forwarding.
    let r = unsafe { libc::syscall(libc::SYS_mmap, addr, len, prot, flags, fd, off) };
    if r != -1 && ledger_on() {
        let mut live = ALL_LIVE.lock().unwrap_or_else(|e| e.into_inner());
        untrack(&mut live, r as usize, len);
        live.push((r as usize, len));
    }
    if armed() && r != -1 {
        track_map(r as usize, len);
    }
    if r != -1 && ledger_on() {
        // Whatever is mapped here now is owned again.
        let mut g = GRAVE.lock().unwrap_or_else(|e| e.into_inner());
        untrack(&mut g, r as usize, len);
    }
    if r != -1 && flags & libc::MAP_SHARED != 0 && ledger_on() {
        let mut l = LEDGER.lock().unwrap_or_else(|e| e.into_inner());
        untrack(&mut l, r as usize, len);
        l.push((r as usize, len));
    }
    if r == -1 { libc::MAP_FAILED } else { r as *mut c_void }
}

/// # Safety
/// C ABI replacement for mmap64(2) (the name the standard library calls, e.g.
/// for a thread's signal stack): same thing on 64-bit Linux.
#[unsafe(no_mangle)]
pub unsafe extern "C" fn mmap64(addr: *mut c_void, len: size_t, prot: c_int, flags: c_int, fd: c_int, off: off_t) -> *mut c_void {
    // SAFETY: forwarding.
    unsafe { mmap(addr, len, prot, flags, fd, off) }
}

/// # Safety
/// C ABI replacement for munmap(2).
#[unsafe(no_mangle)]
pub unsafe extern "C" fn munmap(addr: *mut c_void, len: size_t) -> c_int {
    // SAFETY: forwarding.
    let r = unsafe { libc::syscall(libc::SYS_munmap, addr, len) } as c_int;
    if r == 0 && ledger_on() {
        let mut l = LEDGER.lock().unwrap_or_else(|e| e.into_inner());
        let mut g = GRAVE.lock().unwrap_or_else(|e| e.into_inner());
        let again = overlap(&g, addr as usize, len);
        if !again.is_empty() {
            DOUBLE_UNMAPS.lock().unwrap_or_else(|e| e.into_inner()).extend(again);
        }
        let released = overlap(&l, addr as usize, len);
        untrack(&mut l, addr as usize, len);
        g.extend(released);
        let mut live = ALL_LIVE.lock().unwrap_or_else(|e| e.into_inner());
        untrack(&mut live, addr as usize, len);
    }
    if armed() {
        STATS.with(|s| {
            let mut s = s.borrow_mut();
            s.munmaps += 1;
            if r == 0 {
                untrack(&mut s.mapped, addr as usize, len);
            }
        });
    }
    r
}

/// # Safety
/// C ABI replacement for ftruncate64(2).
#[unsafe(no_mangle)]
pub unsafe extern "C" fn ftruncate64(fd: c_int, len: off_t) -> c_int {
    if armed() {
        let idx = STATS.with(|s| s.borrow().ftruncates);
        let fail = PLAN.with(|p| p.borrow().ftruncate_fail_at == Some(idx));
        STATS.with(|s| s.borrow_mut().ftruncates += 1);
        if fail {
            STATS.with(|s| s.borrow_mut().ftruncate_failed += 1);
            set_errno(libc::ENOSPC);
            return -1;
        }
    }
    // SAFETY: forwarding.
    unsafe { libc::syscall(libc::SYS_ftruncate, fd, len) as c_int }
}

/// # Safety
/// C ABI replacement for ftruncate(2).
#[unsafe(no_mangle)]
pub unsafe extern "C" fn ftruncate(fd: c_int, len: off_t) -> c_int {
    // SAFETY: same contract.
    unsafe { ftruncate64(fd, len) }
}
