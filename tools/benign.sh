#!/bin/bash
# Property-preserving variants of /repo (benign/*.diff): every listed check
# must stay quiet (exit 0) on each of them. /repo must be clean; it is restored.
cd /verif
export VERIF_EVIDENCE_DIR=/tmp/seeded_evidence
# however this script ends, /repo goes back to its committed state (see seeded.sh)
applied=0
trap 'test $applied = 1 && git -C /repo checkout -- .' EXIT
trap 'exit 130' INT TERM HUP PIPE
for d in benign/*.diff; do
  n=$(basename $d .diff)
  checks=$(sed -n 's/^checks: //p' benign/$n.txt)
  test -z "$(git -C /repo status --porcelain)" || { echo "/repo not clean"; exit 2; }
  git -C /repo apply /verif/$d || { echo "$n: patch does not apply"; continue; }
  applied=1
  for p in $checks; do
    out=$(timeout 1500 ./vcheck check $p --tier quick 2>&1); rc=$?
    echo "$n $p rc=$rc $(echo "$out" | grep -E '^violation|harness' | head -2 | cut -c1-300)"
  done
  git -C /repo checkout -- .
  applied=0
done
