#!/usr/bin/env python3
"""Regenerate the 'fixed' list of known_findings.json from /repo's "fix:" commits.
'findings' (defects still present) are kept as they are in the file."""
import json, subprocess, os
HERE = os.path.dirname(os.path.dirname(os.path.abspath(__file__)))
# subject fragment -> (properties, failing history / input)
FIXED = [
 ("consume(0) discarded every tag", "C02", "bufsim: commit 1 tagged sample, consume(0), next read window reports no tags (also feeds C12: Delay calls consume(0) on every work())"),
 ("Buffer::new accepted element sizes", "C01", "Buffer::<[u8;3]>::new(4096) accepted; samples straddling the end of the mapping read back misaligned after the first wrap (C18: must be an error)"),
 ("Delay panicked", "C08", "rig: Delay with input backlog larger than free output space -> slice index panic in fill_from_slice; also idle Again on a full output (C09)"),
 ("RationalResampler emitted wrong samples", "C08", "rig: RationalResampler interp 2 deci 1, output fills after the first copy of a sample -> later copies carry the next sample's value (C10 spec mismatch too)"),
 ("ZeroCrossing and SymbolSync lost", "C08", "rig: output fills at a symbol -> that sample's sign/counter bookkeeping skipped -> output differs between one-shot and chunked delivery"),
 ("VectorSink stopped consuming", "C09", "rig: VectorSink at max_size, input available, returns WaitForStream(src,1) without consuming (misdirected wait)"),
 ("VecToStream waited on its input", "C09", "rig: packet queued, output lacks room -> WaitForStream(src, n) although the input already holds packets (misdirected wait; retires with a packet queued once the writer is gone)"),
 ("SignalSource returned Again forever", "C09", "rig: SignalSourceFloat/Complex with full output -> 5+ consecutive Again without activity"),
 ("AuDecode decoded the rest of the header", "C10", "rig: AuDecode on a 28-byte header + n samples emits n+10 samples (header bytes decoded as audio); also C14"),
 ("tags positioned beyond the committed samples", "C12", "rig: Skip/Delay/FirFilter/Hilbert/FftFilterFloat/CmaEqualizer pass the whole window's tags to produce(n): tags duplicated and attached to unrelated samples under chunked delivery"),
 ("FftFilter lost or misplaced tags", "C12", "rig: FftFilter block filled over several calls -> tags of earlier-consumed samples lost, others shifted"),
 ("FftStream returned Again forever", "C09", "rig: FftStream with a full input frame and less than one frame of output space -> idle Again"),
 ("end-of-stream verdicts could be given", "C04", "mtsim: reader's wait times out with 0 samples, writer commits and exits, reader then reads handle count 1 -> 'never' although the samples are readable (ReadStream/WriteStream wait, NCReadStream wait/eof)"),
 ("FftFilterFloat declared EOF", "C05", "mtsim: MTGraph chain with FftFilterFloat, outer input ends while the output stream is full -> block retired with filtered samples in its inner streams; sink shorter than the reference"),
 ("MTGraph::run panicked (or hung)", "C07", "mtsim: FailAt block returns Err on call k -> MTGraph::run unwinds via expect(\"block exit status\"), or never returns when an upstream FftFilterFloat (WaitForFunc) cannot see its reader is gone"),
 ("Graph::run could return while samples", "C06", "graphsim: VectorSource -> ... -> sink added in non-topological order: run() returns after the pass in which the source emitted and returned EOF; sink empty/short"),
 ("FftFilterFloat never ended once its output", "C05", "mtgraph (thorough tier, long source): downstream Add ended early (second input of 0 samples), FftFilterFloat's output full with its reader gone -> its WaitForFunc closure drops the wait verdicts, eof() false -> block thread loops forever, MTGraph::run() never returns"),
 ("SymbolSync panicked after 2^24 samples", "C15", "enumerated long-run case: SymbolSync fed 2^24+4096 samples of 0 (no sign change: positions are f32 and are never stepped back), then alternating +-1 -> assert 'stream_pos > last_sym_boundary_pos' fails (16776848 not > 16776848); output had stopped at 2^24 as well"),
 ("AuEncode asked for one free byte", "C09", "rig (thorough soak, seed 4242 runs 2436/2993): AuEncode with input waiting and exactly 1 byte free in the output answers WaitForStream(dst, 1): already satisfied (misdirected-wait-out), and freeing exactly what was asked for does not let it progress (wait-not-honoured-out)"),
 ("sigmf::write produced a datatype", "C14", "iosim sigmf leg, recording whose metadata comes from rustradio::sigmf::write: SigMFSourceBuilder::<Complex>::build() fails with 'data type (cf32) not the expected cf32_le' (pointed out by a sub-agent's side remark, then reproduced by the leg)"),
 ("FileSource and SigMFSource carried a partial sample", "C16", "c16 seeded source case, file ending in 1..size-1 stray bytes with repeat >= 2: FileSource<Complex> len 1 repeat 3 emits 4 items (expected 3); SigMFSource(recording) with no whole sample, repeat 2, emits 1 item made of the stray bytes (pointed out by a sub-agent's side remark, then reproduced by the check)"),
 ("SymbolSync and ZeroCrossing panicked when their clock output", "C08", "rig, adapters with the optional clock output connected: input waiting, symbol output with 1 free slot, clock output full -> work() panics with index out of bounds (symbol_sync.rs:137, zero_crossing.rs write of the clock sample); C15 too (a panic)"),
 ("FileSink dropped everything past the first MiB", "C17", "iosim crash/kill runs and C14 file leg, default-size stream holding more than 1 MiB at one work() call (VERIF_SEED=1 quick: C14 run 74 n 1048577, C17 runs 115/194): FileSink serialised the first MiB of its window and consumed all of it -> file holds 1048576 bytes where 1048577+ were acknowledged (C17:acknowledged-data-missing, C17:not-a-prefix, C14:file-sink-bytes). The change was seeded change N09, left applied in /repo's working tree and committed there by the round-1 snapshot (743949f); the fix restores file_sink.rs"),
 ("AVX build of Fir::filter_float", "C11", "kernel case on the AVX build flavour: Fir::filter_float(input longer than taps) panics (assert_eq on lengths) while the scalar kernel returns the dot product"),
 ("derive(Block) sync blocks with three or more inputs", "C19", "build: a harness block with three #[rustradio(in)] streams in sync mode fails to compile (nested tuple vs flat pattern in the generated work())"),
 ("Append mode did not create a missing file", "C17", "iosim: Mode::Append on an absent file -> ENOENT although the documentation says it is created"),
 ("Repeat::again underflowed", "C16", "rig: Repeat::finite(0).again() underflows; FileSource/SigMFSource with finite(0) emit the data once and then panic"),
 ("VectorSource::first", "C16", "rig: VectorSource emitting its first repetition in several pieces tags every piece with VectorSource::first"),
 ("AuDecode panicked", "C15", "rig: AU header with data offset < 24 -> subtraction overflow / slice out of range"),
 ("Midpointer and Wpcr panicked", "C15", "rig: Midpointer on a constant / one-element / infinite burst -> index out of bounds; Wpcr on 4..6 samples -> unwrap on None in find_best_bin"),
 ("HdlcDeframer lost valid frames", "C13", "rig: frame of exactly max_size bytes dropped; valid frame with a single/shared opening flag lost after an over-long or aborted frame (flag hunt restarted from all-ones history)"),
 ("SigMFSource panicked when the data was shorter", "C15", "rig: archive truncated inside its data member -> assert_ne!(n, 0) in SigMFSource::work"),
 ("HdlcDeframer panicked", "C13", "rig: frame shorter than the CRC with min_size <= 1 and checksum on -> subtraction overflow"),
 ("TcpSource corrupted samples", "C14", "iosim: read shorter than the missing part of a split sample -> garbage sample / subtraction overflow; full output treated as EOF"),
]
def main():
    log = subprocess.run(["git","-C","/repo","log","--format=%h %s"],capture_output=True,text=True).stdout.splitlines()
    fixes = [l for l in log if " fix:" in l]
    path = os.path.join(HERE,"known_findings.json")
    cur = json.load(open(path))
    out = []
    for l in reversed(fixes):
        h, subj = l.split(" ",1)
        m = [f for f in FIXED if f[0] in subj]
        if not m:
            out.append(f"fixed: property=? {h} {subj}")
        else:
            out.append(f"fixed: property={m[0][1]} {h} {m[0][2]}")
    cur["fixed"] = out
    json.dump(cur, open(path,"w"), indent=1)
    print("\n".join(out))
main()
