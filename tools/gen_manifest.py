#!/usr/bin/env python3
"""Regenerate /verif/MANIFEST.json from the table below (keeps it schema-valid)."""
import json, subprocess, os
HERE = os.path.dirname(os.path.dirname(os.path.abspath(__file__)))

def hook_commits():
    out = subprocess.run(["git", "-C", "/repo", "log", "--format=%h %s"], capture_output=True, text=True).stdout
    return [l.split()[0] for l in out.splitlines() if "verif hooks" in l]

# id -> (engine, level category, level text, level note, technique, design ref)
CHECKS = {
 "C01": ("bufsim", "exploration",
   "Seeded search over operation histories on a real mmap-backed Buffer<T>/stream (element type, size, start offset, op list and fault ops all drawn from one seed), each op checked against a deque reference model; refusals (oversize commit/consume, bad sizes) are injected as fault ops. Sampling, not proof.",
   "Single-threaded histories; start offsets set through the feature-gated preroll hook; tag positions respect the documented contract.",
   "deterministic simulation: seeded op-history search vs reference model, fault ops injected", "5/C01"),
 "C02": ("bufsim", "exploration",
   "Same engine as C01 with tag-heavy histories (tags on first/last sample of a commit, either side of the wrap, consume(0), partial consumes); every read window's tag list is compared with the model's, in commit order.",
   "Single-threaded histories; tag positions < n as the contract requires.",
   "deterministic simulation: seeded op-history search vs reference model", "5/C02"),

 "C08": ("rig", "exploration",
   "Every registered library block (56 adapters) is run twice on real streams from one seed: one-shot delivery with ample space, and a seeded drip-feed schedule on 1-3 page streams pre-rolled to seeded wrap offsets (feed 1..k, drain 0..j, outputs held full, input larger than output space). Outputs must be bit-identical (NaNs canonicalised), and neither run may panic or fail.",
   "The harness is the block's only peer; constructor preconditions respected; sampling, not enumeration.",
   "deterministic simulation: seeded drip-feed schedules (environment faults: full outputs, tiny feeds, wrap offsets), A/B output identity", "5/C08"),
 "C09": ("rig", "exploration",
   "Same environment; every work() call is audited: no live stream window or extra handle afterwards, a wait verdict without activity must name an unsatisfied stream (and not ask for more than a full stream can hold) and is probed by providing exactly what was asked for, idle 'Again' is probed by calling again with an unchanged environment (at most 4 in a row), and after the inputs are dropped (peer-gone fault) and drained the block must retire within 4 calls (EOF, eof(), or a true wait() on an ended input evaluated in virtual time).",
   "Verdicts after a call that moved data are treated as hints, not claims. Pending/WaitForFunc accepted as documented.",
   "deterministic simulation: seeded drip-feed schedules + peer-drop fault, per-call verdict oracle with virtual-time wait probes", "5/C09"),
 "C10": ("rig", "exploration",
   "Blocks with an exactly specified function are compared, under both one-shot and chunked delivery, with independent executable specifications written from the documentation (values and exact counts).",
   "The input dimension is ordinary seeded generation (all byte values, float specials, boundary lengths); only the delivery schedule is simulation. Specifications are the harness author's reading of the docs.",
   "seeded generation + reference model under simulated delivery schedules", "5/C10"),
 "C11": ("rig", "exploration",
   "FIR, FFT filter (complex and real), Hilbert, single-pole IIR, quadrature demodulators are compared with f64 reference arithmetic within stated rounding bounds under both delivery modes; decimation phase is anchored at sample 0. One run in six compares the dot-product kernels directly (generic, and filter_float = the AVX kernel on the AVX build flavour) with f64 and checks generated Hamming low-pass taps for odd length, symmetry and unit DC gain.",
   "Rounding bounds: 64*eps*sum|tap*x| for dot products, 32*eps*log2(N)*sum|taps|*max|x| for FFT convolution. Runs twice when the CPU has AVX: on the default build and on a build with -C target-feature=+avx,+sse3 (the AVX kernel in src/fir.rs is selected at compile time); the portable-simd kernel (nightly, feature simd) is not built.",
   "seeded generation + f64 reference under simulated delivery schedules", "5/C11"),
 "C12": ("rig", "exploration",
   "Inputs carry tags at seeded absolute indices (clustered where the drip schedule cuts); output tags are collected at consume time and compared as a multiset with the mapped input tags (identity, +delay, -skip, index/decimation) plus the tags each block is specified to add.",
   "Tags are attributed to absolute sample indices by the harness; stream-level tag semantics are C02.",
   "deterministic simulation: seeded drip-feed schedules with tags at chunk boundaries, multiset oracle", "5/C12"),

 "C03": ("mtsim", "exploration",
   "A producer thread and a consumer thread share one real stream under the baton scheduler: every lock, unlock, condvar wait, notify and time-out firing is a seeded decision (random walk, run-to-block with preemptions, PCT-like priorities; time-out bias 0-100%). Each read window must be the next slice of the committed sequence, window sizes must be bracketed by what the other side had committed/consumed, and no live read window may overlap a live write window (window tracker fed by feature-gated hooks).",
   "Sequentially consistent interleavings only (no weak-memory effects). Time-outs may fire at any scheduling point (sound over-approximation).",
   "deterministic simulation: seeded thread schedules with time-out firings over real threads run one at a time", "5/C03"),
 "C04": ("mtsim", "exploration",
   "Six shapes (reader waits / polls eof / writer waits, for sample and packet streams) race a peer that commits or consumes a few pieces and then drops its end against wait(need)/eof()/closed() loops, under seeded schedules with time-out firings. A true verdict is checked at its return instant against the facts (peer dropped, fewer than need present, everything committed still readable); once the peer is gone and the remainder is short the verdict must come within 2 calls (fair strategies only).",
   "SC interleavings. Liveness only asserted under fair strategies.",
   "deterministic simulation: seeded schedules + peer-drop fault + time-out firings, verdict-truth oracle", "5/C04"),
 "C05": ("mtsim", "exploration",
   "The real MTGraph::run executes generated graphs (chains with rate changers, FIR/FFT filters, a tee/merge diamond, HDLC packet stage; sources of 0..3 capacities; 1-4 page streams; shuffled add order) with every block thread under the baton scheduler. run() must return (no deadlock; no stall of 40000 steps without any sample moving, under fair strategies), leave no thread, and the sink must equal a sequential reference execution of the same recipe.",
   "Reference = same blocks driven sequentially on large streams until nothing moves. Recipes include harness stages Framed (one frame per call, answers a wait from the call that moved data) and Lazy (answers Pending before each move). Diamond skew < capacity/4; packets <= capacity/2. SC interleavings.",
   "deterministic simulation: seeded schedules of the real runner's threads, reference-execution oracle, stall/deadlock detection", "5/C05"),
 "C06": ("graphsim", "exploration",
   "The real Graph::run executes the same recipe space under virtual time, once per add order (all permutations up to 4 blocks, else 8 incl. reverse). Each time run() must return Ok with the sink equal to the reference; returning with data in flight shows as a short sink.",
   "Single-threaded; the schedule dimension is the block order and buffer sizes. Recipes include the harness stages Framed (wait verdict from a call that moved data) and Lazy (Pending).",
   "deterministic simulation: add-order/stream-size configuration search with virtual sleep, reference-execution oracle", "5/C06"),
 "C07": ("mtsim+graphsim", "fault_enumeration",
   "Injected faults: cancel() from a canceller thread after a seeded number of scheduling points (MTGraph) or from inside a block's k-th call (Graph), or a pass-through block failing on its k-th call at a seeded chain position; infinite and finite sources; both runners. After cancel() returned no block may be invoked more than 2 (MTGraph) / 1 (Graph) more times, run() returns Ok and leaves no thread; a failing work() must come back as that Err from run(), never a panic, hang or Ok.",
   "Bound on further calls is the harness's reading of 'bounded'. Combined legs: a failing block in a graph that is also cancelled (by a canceller thread, another block, or the failing block itself) must still come back as the block's error whenever the failing call happened. Spawn failure is not injected (not part of the property).",
   "deterministic simulation: fault injection (cancel / block error) at seeded points under seeded schedules", "5/C07"),

 "C13": ("rig", "fault_enumeration",
   "A transmitter model (CRC-16/X.25, LSB-first, stuffing, 1-3 opening flags, shared/separate flags, payloads 0..max+2 incl. stuffing-heavy contents) feeds the real HdlcDeframer through the drip-feed rig with channel faults (random noise prefix, prefixes ending in a partial flag, 1-2 flipped bits in a chosen frame) and seeded min/max/checksum/fix settings. The output list must have an order-preserving explanation: every MUST frame delivered once, no flipped frame delivered (or only repaired to the original), nothing with a failing FCS according to a spec-level reference deframer, nothing unexplained on a clean channel, sizes within bounds.",
   "Boundary sizes, empty frames with min_size 0 and reference-valid noise-born frames are MAY. Two listed known findings (single-bit fixing repairing a cut-off piece / noise into an untransmitted payload) are reported as KNOWN-FINDING lines.",
   "deterministic simulation: channel fault injection (noise, bit flips) x seeded delivery schedules, reference-deframer oracle", "5/C13"),

 "C15": ("rig", "fault_enumeration",
   "Enumerated: every burst of length 0..6 over {-1,0,1,NaN,inf} through Midpointer and Wpcr, every AU header with data offset 0..64 x 6 encodings x 3 channel counts through AuDecode. Seeded: one corruption fault per run on a valid artefact (AU truncation/field mutation/bit flips/garbage; SigMF metadata with missing or mistyped fields; archives truncated, with zero-length/duplicate/non-regular/missing members, bit-flipped, garbage) or a hostile sample/bit/packet stream (NaN, infinities, denormals, huge values, wrong-typed burst tags), delivered through the drip-feed rig. Only Ok/Err outcomes are acceptable: no panic, no stuck packet, window accounting intact.",
   "Bit inputs stay in {0,1}; constructor preconditions respected; Sample::parse only sees correctly sized slices.",
   "fault enumeration + seeded corruption faults under simulated delivery; crash/hang oracle", "5/C15"),
 "C16": ("rig", "exploration",
   "Enumerated: all 10935 length-7 call sequences over {again, done, count} from finite(0..3)/infinite against a reference counter. Seeded: VectorSource, FileSource and SigMFSource (recording and tar archive with seeded member order) x data length around and beyond the stream capacity x repeat {0,1,2,3,infinite} under a seeded downstream drain schedule with full outputs and wrap offsets: emitted == data^repeat, EOF exactly then (within 3 calls that had output room), infinite never EOF, VectorSource marker tags once per repetition.",
   "Files hold whole samples; a source is not called again after EOF.",
   "deterministic simulation: seeded downstream consumption schedules + exhaustive small API histories vs reference counter", "5/C16"),

 "C19": ("rig", "exploration",
   "Blocks defined in the harness crate with the derive macro (sync 1..3 inputs x 1..3 outputs with mixed element types, default and into fields; sync_tag 1x1 and 2x2; a non-sync block with a packet output between two sample outputs) run under the drip-feed environment with uneven inputs and outputs. Every work() call is checked against the documented contract (steps == min over all streams, one sample per stream per step, wait target, values, tags), plus constructor return order and generated eof().",
   "Harness blocks are compiled by the macro crate in /repo; a macro change that stops them compiling shows as a build failure (exit 2), not as a violation.",
   "deterministic simulation: seeded drip-feed schedules over harness-defined derive blocks, per-step contract oracle", "5/C19"),

 "C14": ("iosim", "fault_enumeration",
   "Byte-level legs with the result size of every read()/recv()/write() on the block's descriptors decided by the run's fault plan (1-byte, sample-1, sample+1, random, large; cuts inside a sample): Sample codec identity on arbitrary bit patterns; FileSink -> file -> FileSource round trip; SigMFSource from a recording and from a tar archive (seeded member order, unrelated members); AuEncode -> AuDecode against the PCM16 quantisation; TcpSource over loopback with exact recv() segmentation (MSG_WAITALL). Oracle: byte/sample identity and exact counts.",
   "EINTR on reads not injected; loopback TCP with a harness peer; NaN payloads compared raw.",
   "deterministic simulation: syscall seam (short reads/writes at link-time-interposed read/recv/write) x seeded delivery schedules, identity oracle", "5/C14"),
 "C17": ("iosim", "fault_enumeration",
   "Enumerated: 3 modes x 7 initial states (incl. content that is not a whole number of samples, and a dangling symbolic link) x 3 sinks (FileSink<u8>, NoCopyFileSink, FileSink<Float>) against the documented truth table. Seeded: a re-exec'd child streams data through the sink; the fault plan kills it (SIGKILL) at the N-th write() on the sink after a torn prefix of k bytes, or injects short writes / one EINTR / ENOSPC / EIO (4-8 KiB streams; one run in 30 a default-size stream fed more than 1 MiB); after every work() the child records how much was consumed. Parent oracle: file is a prefix of (old content +) serialised stream and contains at least everything acknowledged; complete when not killed.",
   "Process death, not power loss. 'Unwritable' realised as missing parent / directory (root ignores mode bits).",
   "deterministic simulation: crash injection at every write boundary with torn writes (child process), short writes, EINTR; prefix + acknowledged-durability oracle", "5/C17"),
 "C18": ("iosim", "fault_enumeration",
   "Single-worker runs so that process-wide counts are exact: seeded create/drop histories of 1..20 streams (valid and invalid sizes, element sizes dividing and not, creation/drop on other threads) between canary mappings, with one optional fault (1st or 2nd mmap of a creation -> ENOMEM, ftruncate -> ENOSPC, descriptor limit reached). Checks: aliasing through a window spanning the wrap (every offset of a one-page buffer is enumerated), Err not panic, no released stream range unmapped a second time (graveyard in the mmap/munmap seam), stream pairs dropped in seeded order / on another thread / during unwinding, empty mmap/munmap ledger, /proc/self/maps deleted-file mappings and /proc/self/fd back to baseline, canaries intact, a fresh stream still works.",
   "tempfile creation cannot be failed at the libc seam (raw syscalls); address-space exhaustion modelled as ENOMEM at a chosen mmap index.",
   "deterministic simulation: syscall-seam fault injection (mmap/ftruncate/fd limit) over seeded create/drop histories, leak ledger + /proc oracle", "5/C18"),

 "C20": ("graphsim+mtsim", "exploration",
   "A transmitter model (HDLC framing with CRC, NRZI, Bell-202 AFSK audio at 44100/48000/50000 Hz, or G3RUH scrambling + 2-FSK baseband at 50000/100000 Hz; 1-8 frames of 10-300 bytes incl. stuffing-heavy payloads; 20-100 flag preamble; seeded start phase and sub-sample symbol timing) feeds the receive chains assembled block for block as in examples/ax25-1200-rx.rs and examples/ax25-9600-rx.rs (ZeroCrossing clock recovery). Every transmission runs on Graph under virtual time; a seeded subset also on MTGraph with all block threads under the baton scheduler. Delivered frames must equal transmitted frames on each runner.",
   "Noiseless channel; trailing silence flushes block filters; sink is a harness packet collector.",
   "deterministic simulation: seeded transmissions through the real chains on both runners (MTGraph under seeded schedules), frame-identity oracle", "5/C20"),
}
PENDING_REASON = "check not built yet in this session (planned in DESIGN.md section 5); not a claim that the property is out of reach"

def main():
    props = [json.loads(l)["id"] for l in open(os.path.join(HERE, "properties.jsonl"))]
    checks = []
    for pid in props:
        if pid not in CHECKS:
            continue
        eng, cat, text, note, tech, ref = CHECKS[pid]
        checks.append({
            "property_id": pid,
            "quick_cmd": f"./vcheck check {pid} --tier quick",
            "thorough_cmd": f"./vcheck check {pid} --tier thorough",
            "evidence_file": f"/verif/evidence/{pid}.json",
            "replay_cmd_template": "./vcheck replay {path}",
            "engine": eng,
            "level_claimed": {"category": cat, "text": text, "design_ref": f"DESIGN.md section {ref}"},
            "level_note": note,
            "technique": tech,
        })
    na = [{"property_id": p, "reason": PENDING_REASON} for p in props if p not in CHECKS]
    m = {
        "version": 1,
        "setup_cmd": "cd /verif && ./vcheck setup",
        "hooks": {
            "guard": "cargo feature verif_hooks (off by default)",
            "enable": "the simulator crate /verif/sim depends on /repo by path with features = [\"verif_hooks\"]; ./vcheck rebuilds it from /repo's working tree before every check",
            "baseline_off_cmd": "cd /repo && cargo test --workspace --no-fail-fast --offline",
            "source_commits": hook_commits(),
            "add_only": True,
        },
        "engines": [
            {"name": "mtsim", "path": "sim/src/rt.rs, sim/src/mt.rs, sim/src/graphs.rs", "serves_properties": ["C03", "C04", "C05", "C07", "C20"], "kind_free_text": "baton scheduler over real OS threads behind the std shim: one seeded decision per lock/unlock/wait/notify/time-out/spawn/join/atomic point; real MTGraph and streams"},
            {"name": "graphsim", "path": "sim/src/graphsim.rs", "serves_properties": ["C06", "C07", "C20"], "kind_free_text": "real Graph::run under virtual time on generated graphs, add-order permutations"},
            {"name": "iosim", "path": "sim/src/sys.rs, sim/src/iosim.rs", "serves_properties": ["C14", "C17", "C18"], "kind_free_text": "syscall seam: read/recv/write/mmap/munmap/ftruncate defined in the binary (link-time interposition), thread-local fault plans; crash runs in a re-exec'd child"},
            {"name": "rig", "path": "sim/src/rig.rs, sim/src/blocks.rs, sim/src/rigcheck.rs", "serves_properties": ["C08", "C09", "C10", "C11", "C12", "C13", "C15", "C16", "C19"], "kind_free_text": "drip-feed environment for one block: harness owns all peers of a real block on real streams; seeded feed/drain/work schedules; virtual time"},
            {"name": "bufsim", "path": "sim/src/bufsim.rs", "serves_properties": ["C01", "C02"], "kind_free_text": "seeded single-thread op-history simulator over Buffer<T> with a deque reference model"},
        ],
        "checks": checks,
        "not_applicable": na,
        "notes": "All checks are one binary (sim/, ./vcheck). Exit 0 held / 1 violation (VIOLATION line + replay file) / 2 harness error. VERIF_SEED, VERIF_TIER, VERIF_WORKERS, VERIF_MAX_SECS are honoured. Known findings: known_findings.json.",
    }
    json.dump(m, open(os.path.join(HERE, "MANIFEST.json"), "w"), indent=1)
    print("wrote MANIFEST.json with", len(checks), "checks,", len(na), "not claimed")

main()
