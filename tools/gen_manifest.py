#!/usr/bin/env python3
"""Regenerate /verif/MANIFEST.json from the table below (keeps it schema-valid)."""
import json, subprocess, os
HERE = os.path.dirname(os.path.dirname(os.path.abspath(__file__)))

def hook_commits():
    out = subprocess.run(["git", "-C", "/repo", "log", "--format=%h %s"], capture_output=True, text=True).stdout
    return [l.split()[0] for l in out.splitlines() if "verif hooks" in l]

# id -> (engine, level category, level text, level note, technique, design ref)
CHECKS = {
 "C01": ("bufsim", "exploration",
   "Seeded search over operation histories on a real mmap-backed Buffer<T>/stream (element type, size, start offset, op list and fault ops all drawn from one seed), each op checked against a deque reference model; refusals (oversize commit/consume, bad sizes) are injected as fault ops. Sampling, not proof.",
   "Single-threaded histories; start offsets set through the feature-gated preroll hook; tag positions respect the documented contract.",
   "deterministic simulation: seeded op-history search vs reference model, fault ops injected", "5/C01"),
 "C02": ("bufsim", "exploration",
   "Same engine as C01 with tag-heavy histories (tags on first/last sample of a commit, either side of the wrap, consume(0), partial consumes); every read window's tag list is compared with the model's, in commit order.",
   "Single-threaded histories; tag positions < n as the contract requires.",
   "deterministic simulation: seeded op-history search vs reference model", "5/C02"),

 "C08": ("rig", "exploration",
   "Every registered library block (53 adapters) is run twice on real streams from one seed: one-shot delivery with ample space, and a seeded drip-feed schedule on 1-3 page streams pre-rolled to seeded wrap offsets (feed 1..k, drain 0..j, outputs held full, input larger than output space). Outputs must be bit-identical (NaNs canonicalised), and neither run may panic or fail.",
   "The harness is the block's only peer; constructor preconditions respected; sampling, not enumeration.",
   "deterministic simulation: seeded drip-feed schedules (environment faults: full outputs, tiny feeds, wrap offsets), A/B output identity", "5/C08"),
 "C09": ("rig", "exploration",
   "Same environment; every work() call is audited: no live stream window or extra handle afterwards, a wait verdict without activity must name an unsatisfied stream and is probed by providing exactly what was asked for, idle 'Again' is probed by calling again with an unchanged environment (at most 4 in a row), and after the inputs are dropped (peer-gone fault) and drained the block must retire within 4 calls (EOF, eof(), or a true wait() on an ended input evaluated in virtual time).",
   "Verdicts after a call that moved data are treated as hints, not claims. Pending/WaitForFunc accepted as documented.",
   "deterministic simulation: seeded drip-feed schedules + peer-drop fault, per-call verdict oracle with virtual-time wait probes", "5/C09"),
 "C10": ("rig", "exploration",
   "Blocks with an exactly specified function are compared, under both one-shot and chunked delivery, with independent executable specifications written from the documentation (values and exact counts).",
   "The input dimension is ordinary seeded generation (all byte values, float specials, boundary lengths); only the delivery schedule is simulation. Specifications are the harness author's reading of the docs.",
   "seeded generation + reference model under simulated delivery schedules", "5/C10"),
 "C11": ("rig", "exploration",
   "FIR, FFT filter (complex and real), Hilbert, single-pole IIR, quadrature demodulators are compared with f64 reference arithmetic within stated rounding bounds under both delivery modes; decimation phase is anchored at sample 0.",
   "Rounding bounds: 64*eps*sum|tap*x| for dot products, 32*eps*log2(N)*sum|taps|*max|x| for FFT convolution. Scalar build only unless the AVX flavour is built (thorough).",
   "seeded generation + f64 reference under simulated delivery schedules", "5/C11"),
 "C12": ("rig", "exploration",
   "Inputs carry tags at seeded absolute indices (clustered where the drip schedule cuts); output tags are collected at consume time and compared as a multiset with the mapped input tags (identity, +delay, -skip, index/decimation) plus the tags each block is specified to add.",
   "Tags are attributed to absolute sample indices by the harness; stream-level tag semantics are C02.",
   "deterministic simulation: seeded drip-feed schedules with tags at chunk boundaries, multiset oracle", "5/C12"),
}
PENDING_REASON = "check not built yet in this session (planned in DESIGN.md section 5); not a claim that the property is out of reach"

def main():
    props = [json.loads(l)["id"] for l in open(os.path.join(HERE, "properties.jsonl"))]
    checks = []
    for pid in props:
        if pid not in CHECKS:
            continue
        eng, cat, text, note, tech, ref = CHECKS[pid]
        checks.append({
            "property_id": pid,
            "quick_cmd": f"./vcheck check {pid} --tier quick",
            "thorough_cmd": f"./vcheck check {pid} --tier thorough",
            "evidence_file": f"/verif/evidence/{pid}.json",
            "replay_cmd_template": "./vcheck replay {path}",
            "engine": eng,
            "level_claimed": {"category": cat, "text": text, "design_ref": f"DESIGN.md section {ref}"},
            "level_note": note,
            "technique": tech,
        })
    na = [{"property_id": p, "reason": PENDING_REASON} for p in props if p not in CHECKS]
    m = {
        "version": 1,
        "setup_cmd": "cd /verif/sim && CARGO_NET_OFFLINE=true cargo build --release --offline",
        "hooks": {
            "guard": "cargo feature verif_hooks (off by default)",
            "enable": "the simulator crate /verif/sim depends on /repo by path with features = [\"verif_hooks\"]; ./vcheck rebuilds it from /repo's working tree before every check",
            "baseline_off_cmd": "cd /repo && cargo test --workspace --no-fail-fast --offline",
            "source_commits": hook_commits(),
            "add_only": True,
        },
        "engines": [
            {"name": "rig", "path": "sim/src/rig.rs, sim/src/blocks.rs, sim/src/rigcheck.rs", "serves_properties": ["C08", "C09", "C10", "C11", "C12"], "kind_free_text": "drip-feed environment for one block: harness owns all peers of a real block on real streams; seeded feed/drain/work schedules; virtual time"},
            {"name": "bufsim", "path": "sim/src/bufsim.rs", "serves_properties": ["C01", "C02"], "kind_free_text": "seeded single-thread op-history simulator over Buffer<T> with a deque reference model"},
        ],
        "checks": checks,
        "not_applicable": na,
        "notes": "All checks are one binary (sim/, ./vcheck). Exit 0 held / 1 violation (VIOLATION line + replay file) / 2 harness error. VERIF_SEED, VERIF_TIER, VERIF_WORKERS, VERIF_MAX_SECS are honoured. Known findings: known_findings.json.",
    }
    json.dump(m, open(os.path.join(HERE, "MANIFEST.json"), "w"), indent=1)
    print("wrote MANIFEST.json with", len(checks), "checks,", len(na), "not claimed")

main()
