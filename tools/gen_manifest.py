#!/usr/bin/env python3
"""Regenerate /verif/MANIFEST.json from the table below (keeps it schema-valid)."""
import json, subprocess, os
HERE = os.path.dirname(os.path.dirname(os.path.abspath(__file__)))

def hook_commits():
    out = subprocess.run(["git", "-C", "/repo", "log", "--format=%h %s"], capture_output=True, text=True).stdout
    return [l.split()[0] for l in out.splitlines() if "verif hooks" in l]

# id -> (engine, level category, level text, level note, technique, design ref)
CHECKS = {
 "C01": ("bufsim", "exploration",
   "Seeded search over operation histories on a real mmap-backed Buffer<T>/stream (element type, size, start offset, op list and fault ops all drawn from one seed), each op checked against a deque reference model; refusals (oversize commit/consume, bad sizes) are injected as fault ops. Sampling, not proof.",
   "Single-threaded histories; start offsets set through the feature-gated preroll hook; tag positions respect the documented contract.",
   "deterministic simulation: seeded op-history search vs reference model, fault ops injected", "5/C01"),
 "C02": ("bufsim", "exploration",
   "Same engine as C01 with tag-heavy histories (tags on first/last sample of a commit, either side of the wrap, consume(0), partial consumes); every read window's tag list is compared with the model's, in commit order.",
   "Single-threaded histories; tag positions < n as the contract requires.",
   "deterministic simulation: seeded op-history search vs reference model", "5/C02"),
}
PENDING_REASON = "check not built yet in this session (planned in DESIGN.md section 5); not a claim that the property is out of reach"

def main():
    props = [json.loads(l)["id"] for l in open(os.path.join(HERE, "properties.jsonl"))]
    checks = []
    for pid in props:
        if pid not in CHECKS:
            continue
        eng, cat, text, note, tech, ref = CHECKS[pid]
        checks.append({
            "property_id": pid,
            "quick_cmd": f"./vcheck check {pid} --tier quick",
            "thorough_cmd": f"./vcheck check {pid} --tier thorough",
            "evidence_file": f"/verif/evidence/{pid}.json",
            "replay_cmd_template": "./vcheck replay {path}",
            "engine": eng,
            "level_claimed": {"category": cat, "text": text, "design_ref": f"DESIGN.md section {ref}"},
            "level_note": note,
            "technique": tech,
        })
    na = [{"property_id": p, "reason": PENDING_REASON} for p in props if p not in CHECKS]
    m = {
        "version": 1,
        "setup_cmd": "cd /verif/sim && CARGO_NET_OFFLINE=true cargo build --release --offline",
        "hooks": {
            "guard": "cargo feature verif_hooks (off by default)",
            "enable": "the simulator crate /verif/sim depends on /repo by path with features = [\"verif_hooks\"]; ./vcheck rebuilds it from /repo's working tree before every check",
            "baseline_off_cmd": "cd /repo && cargo test --workspace --no-fail-fast --offline",
            "source_commits": hook_commits(),
            "add_only": True,
        },
        "engines": [
            {"name": "bufsim", "path": "sim/src/bufsim.rs", "serves_properties": ["C01", "C02"], "kind_free_text": "seeded single-thread op-history simulator over Buffer<T> with a deque reference model"},
        ],
        "checks": checks,
        "not_applicable": na,
        "notes": "All checks are one binary (sim/, ./vcheck). Exit 0 held / 1 violation (VIOLATION line + replay file) / 2 harness error. VERIF_SEED, VERIF_TIER, VERIF_WORKERS, VERIF_MAX_SECS are honoured. Known findings: known_findings.json.",
    }
    json.dump(m, open(os.path.join(HERE, "MANIFEST.json"), "w"), indent=1)
    print("wrote MANIFEST.json with", len(checks), "checks,", len(na), "not claimed")

main()
