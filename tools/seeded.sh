#!/bin/bash
# usage: tools/seeded.sh confirm <name> <worktree> <prop> <demo-file-rel>   -> verifies and stores under /verif/seeded/<name>
#        tools/seeded.sh try <name> <prop> [more props...]               -> applies patch to /repo, runs quick checks, reverts
set -u
cmd=$1; shift
export CARGO_NET_OFFLINE=true
case $cmd in
confirm)
  name=$1; wt=$2; prop=$3; demo=$4
  cd "$wt" || exit 2
  test -s patch.diff || { echo "no patch.diff"; exit 2; }
  # normalise: make sure patch is applied
  git apply --check -R patch.diff 2>/dev/null || git apply patch.diff || { echo "cannot apply patch"; exit 2; }
  demoname=$(basename "$demo" .rs)
  echo "== existing suite with change (demo moved aside)"
  mv "$demo" /tmp/_demo_$name.rs
  cargo test --offline 2>&1 | grep -E "^test result|FAILED|error(\[|:)" | head -5
  suite=$?
  mv /tmp/_demo_$name.rs "$demo"
  echo "== demo with change (expect FAIL)"
  cargo test --offline --test "$demoname" 2>&1 | grep -E "^test result|error(\[|:)" | head -3
  git apply -R patch.diff
  echo "== demo without change (expect ok)"
  cargo test --offline --test "$demoname" 2>&1 | grep -E "^test result|error(\[|:)" | head -3
  git apply patch.diff
  mkdir -p /verif/seeded/$name
  cp patch.diff /verif/seeded/$name/patch.diff
  cp "$demo" /verif/seeded/$name/
  ;;
try)
  name=$1; shift
  cd /repo || exit 2
  test -z "$(git status --porcelain)" || { echo "/repo not clean"; exit 2; }
  # whatever ends this script (kill, SIGPIPE, session end), /repo goes back to
  # its committed state: a change left applied was once snapshotted into /repo
  # (DESIGN 8.1, commit 743949f).
  trap 'git -C /repo checkout -- .' EXIT
  trap 'exit 130' INT TERM HUP PIPE
  git apply /verif/seeded/$name/patch.diff || { echo "patch does not apply"; exit 2; }
  export VERIF_EVIDENCE_DIR=/tmp/seeded_evidence
  for p in "$@"; do
    VERIF_HANG_SECS=${VERIF_HANG_SECS:-150} timeout 1500 /verif/vcheck check $p --tier quick 2>&1 | grep -E "^violation|^VIOLATION|^ok|harness|KNOWN" | cut -c1-400
    echo "exit[$p]=${PIPESTATUS[0]}"
  done
  git -C /repo checkout -- .
  find /verif/replays -name '*.json' -newer /verif/seeded/$name/patch.diff -print | head -3
  ;;
esac
