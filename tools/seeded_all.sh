#!/bin/bash
# Re-run every seeded change against the quick check of its property.
# Output: one line per change. /repo must be clean; it is restored after each.
cd /verif
for d in seeded/*/; do
  n=$(basename $d)
  p=$(python3 -c "import json;print((lambda m: m.get('check_property_for_rerun', m['property']))(json.load(open('$d/meta.json'))))")
  out=$(tools/seeded.sh try $n $p 2>&1)
  rc=$(echo "$out" | grep -o "exit\[$p\]=[0-9]*" | cut -d= -f2)
  key=$(echo "$out" | grep -m1 "^violation" | sed 's/.*key=\([^ ]*\).*/\1/')
  exp=$(python3 -c "import json;print('expected-quiet' if json.load(open('$d/meta.json')).get('not_caught') else '')")
  echo "$n $p exit=$rc $key $exp"
  find /verif/replays -name '*.json' -delete
done
