#!/bin/bash
# Same as seeded_all.sh, but for `vp run --with-repo`: works on the run's private
# copies of /verif and /repo ($VP_RUN_REPO), so that /repo stays free.
# One line per seeded change: name, property checked, exit code, first key.
set -u
repo=${VP_RUN_REPO:?run with vp run --with-repo}
sed -i "s#path = \"/repo\"#path = \"$repo\"#" sim/Cargo.toml
export VERIF_EVIDENCE_DIR=/tmp/seeded_evidence_run$$ VERIF_WORKERS=${SOAK_WORKERS:-8}
mkdir -p $VERIF_EVIDENCE_DIR
for d in seeded/*/; do
  n=$(basename $d)
  test -f $d/meta.json || continue
  p=$(python3 -c "import json;print((lambda m: m.get('check_property_for_rerun', m['property']))(json.load(open('$d/meta.json'))))")
  git -C $repo apply $PWD/$d/patch.diff || { echo "$n $p patch does not apply"; continue; }
  out=$(VERIF_HANG_SECS=${VERIF_HANG_SECS:-150} timeout 1500 ./vcheck check $p --tier quick 2>&1); rc=$?
  git -C $repo checkout -- .
  key=$(echo "$out" | grep -m1 "^violation" | sed 's/.*key=\([^ ]*\).*/\1/')
  exp=$(python3 -c "import json;print('expected-quiet' if json.load(open('$d/meta.json')).get('not_caught') else '')")
  echo "$n $p exit=$rc $key $exp"
  find replays -name '*.json' -delete 2>/dev/null
done
rm -rf $VERIF_EVIDENCE_DIR
