#!/bin/bash
# soak: many seeds of every quick check on a private copy of /repo's HEAD
set -u
sed -i "s#path = \"/repo\"#path = \"$VP_RUN_REPO\"#" sim/Cargo.toml
export VERIF_DIR=$PWD VERIF_WORKERS=5
(cd sim && cargo build --release --offline 2>&1 | tail -1)
for s in 11 12 13 14 15 16 17 18; do
 for p in C01 C02 C03 C04 C05 C06 C07 C08 C09 C10 C11 C12 C13 C14 C15 C16 C17 C18 C19 C20; do
   out=$(VERIF_SEED=$s ./sim/target/release/vsim check $p --tier quick 2>&1); rc=$?
   echo "seed=$s $p rc=$rc $(echo "$out" | grep -E '^ok|^violation|reach-warning|harness' | head -3 | tr '\n' ' ' | cut -c1-300)"
 done
done
