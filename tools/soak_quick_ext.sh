#!/bin/bash
# quick tier far beyond its budget (default seed and vp check's seed 1): covers
# the run indices a faster machine would reach within the quick time cap.
set -u
sed -i "s#path = \"/repo\"#path = \"$VP_RUN_REPO\"#" sim/Cargo.toml
export VERIF_DIR=$PWD VERIF_WORKERS=${SOAK_WORKERS:-6} VSIM_NO_AVX=1 VERIF_KEEP_ORIG=1
(cd sim && cargo build --release --offline 2>&1 | tail -1)
for s in ${SOAK_SEEDS:-20260927 1}; do
 for p in C13 C05 C06 C07 C03 C04 C01 C02 C08 C09 C10 C11 C12 C14 C15 C16 C17 C18 C19 C20; do
   st=$(date +%s)
   out=$(VERIF_SEED=$s VERIF_MAX_SECS=${SOAK_SECS:-300} ./sim/target/release/vsim check $p --tier quick --runs 100000000 2>&1); rc=$?
   echo "quick-ext seed=$s $p rc=$rc secs=$(( $(date +%s) - st )) $(echo "$out" | grep -E '^ok|^violation|reach-warning|harness' | head -4 | tr '\n' ' ' | cut -c1-400)"
 done
done
