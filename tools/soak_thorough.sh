#!/bin/bash
# thorough tier of every check once, on a private copy of /repo's HEAD
set -u
sed -i "s#path = \"/repo\"#path = \"$VP_RUN_REPO\"#" sim/Cargo.toml
export VERIF_DIR=$PWD VERIF_WORKERS=${SOAK_WORKERS:-8} VSIM_NO_AVX=1
(cd sim && cargo build --release --offline 2>&1 | tail -1)
for p in C04 C03 C13 C05 C08 C09 C12 C10 C11 C01 C02 C06 C07 C14 C15 C16 C17 C18 C19 C20; do
   st=$(date +%s)
   out=$(VERIF_SEED=${SOAK_SEED:-77} VERIF_MAX_SECS=${SOAK_SECS:-600} ./sim/target/release/vsim check $p --tier thorough 2>&1); rc=$?
   echo "thorough $p rc=$rc secs=$(( $(date +%s) - st )) $(echo "$out" | grep -E '^ok|^violation|reach-warning|harness|KNOWN' | head -4 | tr '\n' ' ' | cut -c1-400)"
done
